//! Program generators. Every family is a deterministic function from a
//! vector of `u16` draws (produced and shrunk by proptest) to a well-formed
//! program: construction, not rejection. A draw of 0 always selects the
//! simplest alternative, and running out of draws yields 0, so shrinking the
//! draw vector (shorter, smaller) shrinks the program.

use crate::dsl::*;

pub struct Src<'a> {
    d: &'a [u16],
    i: usize,
}

impl<'a> Src<'a> {
    pub fn new(d: &'a [u16]) -> Src<'a> {
        Src { d, i: 0 }
    }
    fn raw(&mut self) -> u32 {
        let v = self.d.get(self.i).cloned().unwrap_or(0);
        self.i += 1;
        v as u32
    }
    /// uniform in 0..n, monotone in the draw
    pub fn pick(&mut self, n: usize) -> usize {
        if n <= 1 {
            self.i += 1;
            return 0;
        }
        ((self.raw() as usize) * n) >> 16
    }
    pub fn range(&mut self, lo: usize, hi_incl: usize) -> usize {
        lo + self.pick(hi_incl - lo + 1)
    }
    /// true with probability num/den (false for draw 0)
    pub fn chance(&mut self, num: usize, den: usize) -> bool {
        self.pick(den) >= den - num
    }
    pub fn of<T: Clone>(&mut self, xs: &[T]) -> T {
        xs[self.pick(xs.len())].clone()
    }
}

const LOAD_ORDS: [MO; 3] = [MO::Sc, MO::Rlx, MO::Acq];
const STORE_ORDS: [MO; 3] = [MO::Sc, MO::Rlx, MO::Rel];
const RMW_ORDS: [MO; 5] = [MO::Sc, MO::Rlx, MO::Acq, MO::Rel, MO::AcqRel];
const FENCE_ORDS: [MO; 4] = [MO::Sc, MO::Acq, MO::Rel, MO::AcqRel];

fn load_ord(s: &mut Src, sc_only: bool) -> MO {
    if sc_only { MO::Sc } else { s.of(&LOAD_ORDS) }
}
fn store_ord(s: &mut Src, sc_only: bool) -> MO {
    if sc_only { MO::Sc } else { s.of(&STORE_ORDS) }
}
fn rmw_ord(s: &mut Src, sc_only: bool) -> MO {
    if sc_only { MO::Sc } else { s.of(&RMW_ORDS) }
}

/// How a location may be written (keeps the main stream outside the known
/// modification-order defects of the pinned tree, see DESIGN §5).
#[derive(Clone, Copy, PartialEq, Eq, Debug)]
pub enum LocMode {
    /// plain stores only, at most two in total or all by one thread
    Stores,
    /// read-modify-writes only (any threads)
    Rmws,
    /// anything goes (quarantined stream)
    Free,
}

#[derive(Clone, Debug)]
pub struct LitmusParams {
    pub sc_only: bool,
    pub fences: bool,
    pub rmw: bool,
    pub free_mix: bool,
    pub max_threads: usize, // spawned threads
    pub max_events: usize,
    pub joins: bool,
    pub late_spawn: bool,
}

/// Free-form litmus programs over atomics and fences.
pub fn litmus(s: &mut Src, p: &LitmusParams) -> Program {
    litmus_k(s, p, None)
}

/// `litmus` with the number of spawned threads fixed (no draw is spent on it).
pub fn litmus_k(s: &mut Src, p: &LitmusParams, fixed_k: Option<usize>) -> Program {
    let k = match fixed_k {
        Some(k) => k,
        None => s.range(if p.max_threads >= 2 { 2 } else { 1 }, p.max_threads.max(1)), // spawned threads
    };
    let nlocs = s.range(1, 3.min(1 + p.max_events / 2));
    let main_ops = s.pick(3); // main takes part with 0..2 ops
    let nth = k + 1;
    let budget = s.range(3.min(p.max_events), p.max_events);
    // location modes
    let modes: Vec<LocMode> = (0..nlocs)
        .map(|_| {
            if p.free_mix {
                LocMode::Free
            } else if p.rmw && s.chance(1, 3) {
                LocMode::Rmws
            } else {
                LocMode::Stores
            }
        })
        .collect();
    let mut stores_at: Vec<Vec<usize>> = vec![vec![]; nlocs]; // threads that store
    let mut writes_at = vec![0usize; nlocs];
    let mut next_val = vec![1u8; nlocs];
    let mut threads: Vec<Vec<Op>> = vec![vec![]; nth];
    let mut per_thread_cap: Vec<usize> = vec![0; nth];
    // distribute the budget
    let mut left = budget;
    per_thread_cap[0] = main_ops.min(left);
    left -= per_thread_cap[0];
    for t in 1..nth {
        per_thread_cap[t] = 1;
    }
    left = left.saturating_sub(k);
    while left > 0 {
        let t = 1 + s.pick(k);
        if per_thread_cap[t] < 4 {
            per_thread_cap[t] += 1;
        }
        left -= 1;
    }
    for t in 0..nth {
        let mut n_mem = 0;
        while n_mem < per_thread_cap[t] {
            let a = s.pick(nlocs);
            let choice = s.pick(if p.fences { 8 } else { 7 });
            match choice {
                // load (most common)
                0 | 1 | 2 => {
                    threads[t].push(Op::Load { a: a as u8, o: load_ord(s, p.sc_only) });
                    n_mem += 1;
                }
                3 | 4 | 5 | 6 => {
                    // a write of the kind the location allows
                    let want_rmw = match modes[a] {
                        LocMode::Rmws => true,
                        LocMode::Stores => false,
                        LocMode::Free => p.rmw && choice >= 5,
                    };
                    if writes_at[a] >= 5 {
                        threads[t].push(Op::Load { a: a as u8, o: load_ord(s, p.sc_only) });
                        n_mem += 1;
                        continue;
                    }
                    if want_rmw {
                        let o = rmw_ord(s, p.sc_only);
                        let op = match s.pick(3) {
                            0 => Op::FetchAdd { a: a as u8, v: 1, o },
                            1 => {
                                let v = next_val[a] + 10;
                                next_val[a] += 1;
                                Op::Swap { a: a as u8, v, o }
                            }
                            _ => {
                                let e = s.pick(3) as u8;
                                let v = next_val[a] + 20;
                                next_val[a] += 1;
                                let f = if p.sc_only { MO::Sc } else { s.of(&LOAD_ORDS) };
                                Op::Cas { a: a as u8, e, n: v, s: o, f }
                            }
                        };
                        threads[t].push(op);
                        writes_at[a] += 1;
                        n_mem += 1;
                    } else {
                        // Stores mode: at most 2 stores in total unless all by one thread
                        let ok = match modes[a] {
                            LocMode::Free => true,
                            _ => {
                                let others = stores_at[a].iter().any(|&u| u != t);
                                if others { stores_at[a].len() < 2 } else { stores_at[a].len() < 3 }
                            }
                        };
                        if ok {
                            let v = next_val[a];
                            next_val[a] += 1;
                            threads[t].push(Op::Store { a: a as u8, v, o: store_ord(s, p.sc_only) });
                            stores_at[a].push(t);
                            writes_at[a] += 1;
                        } else {
                            threads[t].push(Op::Load { a: a as u8, o: load_ord(s, p.sc_only) });
                        }
                        n_mem += 1;
                    }
                }
                _ => {
                    // fence between memory ops
                    if !threads[t].is_empty() && !matches!(threads[t].last(), Some(Op::Fence { .. })) {
                        threads[t].push(Op::Fence { o: s.of(&FENCE_ORDS) });
                    } else {
                        threads[t].push(Op::Load { a: a as u8, o: load_ord(s, p.sc_only) });
                        n_mem += 1;
                    }
                }
            }
        }
        // a trailing fence is useless
        while matches!(threads[t].last(), Some(Op::Fence { .. })) {
            threads[t].pop();
        }
    }
    wrap_main(s, threads, nlocs, p.joins, p.late_spawn)
}

/// Put spawns (and optionally joins + final relaxed loads) around main's ops.
fn wrap_main(s: &mut Src, mut threads: Vec<Vec<Op>>, nlocs: usize, joins: bool, late_spawn: bool) -> Program {
    let nth = threads.len();
    let body = std::mem::take(&mut threads[0]);
    let mut main: Vec<Op> = vec![];
    // positions of the spawns inside main's body (0 = before everything)
    let mut pos: Vec<usize> = (1..nth).map(|_| if late_spawn { s.pick(body.len() + 1) } else { 0 }).collect();
    pos.sort();
    let mut next = 1;
    for (i, op) in body.into_iter().enumerate() {
        while next < nth && pos[next - 1] <= i {
            main.push(Op::Spawn { t: next as u8 });
            next += 1;
        }
        main.push(op);
    }
    while next < nth {
        main.push(Op::Spawn { t: next as u8 });
        next += 1;
    }
    if joins {
        for t in 1..nth {
            main.push(Op::Join { t: t as u8 });
        }
        for a in 0..nlocs {
            main.push(Op::Load { a: a as u8, o: MO::Rlx });
        }
    }
    threads[0] = main;
    Program { threads, rx_owner: 0, arc_owner: vec![] }
}

/// Classical skeletons with random orderings and sprinkled fences.
pub fn litmus_shape(s: &mut Src, p: &LitmusParams) -> Program {
    let lo = |s: &mut Src| load_ord(s, p.sc_only);
    let so = |s: &mut Src| store_ord(s, p.sc_only);
    let ro = |s: &mut Src| rmw_ord(s, p.sc_only);
    let ld = |a: u8, o: MO| Op::Load { a, o };
    let st = |a: u8, v: u8, o: MO| Op::Store { a, v, o };
    let nshape = if p.rmw { 12 } else { 9 };
    let mut nlocs = 2;
    let mut th: Vec<Vec<Op>> = match s.pick(nshape) {
        // SB
        0 => vec![vec![], vec![st(0, 1, so(s)), ld(1, lo(s))], vec![st(1, 1, so(s)), ld(0, lo(s))]],
        // MP
        1 => vec![vec![], vec![st(0, 1, so(s)), st(1, 1, so(s))], vec![ld(1, lo(s)), ld(0, lo(s))]],
        // CoRR
        2 => {
            nlocs = 1;
            vec![vec![], vec![st(0, 1, so(s))], vec![ld(0, lo(s)), ld(0, lo(s))]]
        }
        // 2+2W
        3 => vec![vec![], vec![st(0, 1, so(s)), st(1, 2, so(s))], vec![st(1, 1, so(s)), st(0, 2, so(s))]],
        // WRC
        4 => vec![
            vec![],
            vec![st(0, 1, so(s))],
            vec![ld(0, lo(s)), st(1, 1, so(s))],
            vec![ld(1, lo(s)), ld(0, lo(s))],
        ],
        // RWC-like (main takes part)
        5 => vec![vec![st(1, 1, so(s)), ld(0, lo(s))], vec![st(0, 1, so(s))], vec![ld(0, lo(s)), ld(1, lo(s))]],
        // CoWR / CoRW
        6 => {
            nlocs = 1;
            vec![vec![], vec![st(0, 1, so(s)), ld(0, lo(s))], vec![ld(0, lo(s)), st(0, 2, so(s))]]
        }
        // S / R shapes
        7 => vec![vec![], vec![st(0, 2, so(s)), st(1, 1, so(s))], vec![ld(1, lo(s)), st(0, 1, so(s))]],
        // three-thread message chain through two locations
        8 => {
            nlocs = 3;
            vec![
                vec![],
                vec![st(2, 1, so(s)), st(0, 1, so(s))],
                vec![ld(0, lo(s)), st(1, 1, so(s))],
                vec![ld(1, lo(s)), ld(2, lo(s))],
            ]
        }
        // release sequence through an RMW
        9 => vec![
            vec![],
            vec![st(1, 1, so(s)), Op::Swap { a: 0, v: 1, o: ro(s) }],
            vec![Op::FetchAdd { a: 0, v: 1, o: ro(s) }],
            vec![Op::FetchAdd { a: 0, v: 0, o: ro(s) }, ld(1, lo(s))],
        ],
        // RMW atomicity / chains
        10 => {
            nlocs = 1;
            vec![
                vec![],
                vec![Op::FetchAdd { a: 0, v: 1, o: ro(s) }, ld(0, lo(s))],
                vec![Op::FetchAdd { a: 0, v: 1, o: ro(s) }],
                vec![Op::Swap { a: 0, v: 5, o: ro(s) }],
            ]
        }
        // CAS racing CAS + message
        _ => vec![
            vec![],
            vec![st(1, 1, so(s)), Op::Cas { a: 0, e: 0, n: 1, s: ro(s), f: lo(s) }],
            vec![Op::Cas { a: 0, e: 0, n: 2, s: ro(s), f: lo(s) }, ld(1, lo(s))],
        ],
    };
    // sprinkle fences
    if p.fences {
        for t in 0..th.len() {
            let mut i = 1;
            while i < th[t].len() {
                if s.chance(1, 3) {
                    th[t].insert(i, Op::Fence { o: s.of(&FENCE_ORDS) });
                    i += 1;
                }
                i += 1;
            }
        }
    }
    // optionally one extra observer load at the end of a random thread
    if s.chance(1, 4) {
        let t = 1 + s.pick(th.len() - 1);
        let a = s.pick(nlocs) as u8;
        let o = lo(s);
        th[t].push(ld(a, o));
    }
    wrap_main(s, th, nlocs, p.joins, p.late_spawn)
}

// ---------------------------------------------------------------------------------
// blocking primitives
// ---------------------------------------------------------------------------------

#[derive(Clone, Debug, Default)]
pub struct SyncParams {
    pub mutex: bool,
    pub try_lock: bool,
    pub rwlock: bool,
    pub try_rw: bool,
    pub condvar: bool,
    pub channel: bool,
    pub try_recv: bool,
    pub park: bool,
    pub notify: bool,
    pub atomics: bool,
    /// relaxed single-writer probe locations (x0..x2): values observed through them expose lost
    /// happens-before edges of the primitives
    pub probes: bool,
    pub cells: bool,
    pub yields: bool,
    /// acquire locks only in increasing index order (no deadlock by lock inversion)
    pub ordered_locks: bool,
    pub max_threads: usize,
    pub max_ops: usize,
    pub joins: bool,
    pub late_spawn: bool,
    /// child threads may join earlier children
    pub child_joins: bool,
    /// after joining every thread main reads the protected values through get_mut / into_inner
    pub final_exclusive: bool,
    /// data-dependent control flow: `get / load ; skip_next_unless(v) ; <op>`
    pub conditionals: bool,
    /// main may join a child in the middle of its body (e.g. while holding a guard) instead of at the end
    pub joins_inside: bool,
    /// `unpark` may target any thread (default: only threads whose sole blocking operation is `park`,
    /// which keeps the program outside the class of the recorded finding F5a)
    pub unpark_any: bool,
}

struct ThState {
    held: [bool; 2],
    rheld: bool,
    wheld: bool,
    ops: Vec<Op>,
}

/// Straight-line programs over blocking primitives; well-formed by construction.
pub fn sync_prog(s: &mut Src, p: &SyncParams) -> Program {
    let k = s.range(1, p.max_threads.max(1));
    let nth = k + 1;
    let total = s.range(2.min(p.max_ops), p.max_ops);
    let nmtx = if p.mutex || p.condvar { s.range(1, 2) } else { 0 };
    let rx_owner = if p.channel { s.pick(nth) } else { 0 };
    let nf_waiter = if p.notify { s.pick(nth) } else { 0 };
    let mut st: Vec<ThState> =
        (0..nth).map(|_| ThState { held: [false; 2], rheld: false, wheld: false, ops: vec![] }).collect();
    let mut next_msg = 1u8;
    let mut next_val = 1u8;
    let mut sends = 0usize;
    let mut recvs = 0usize;
    // spawn positions in main: decided at the end; for Unpark well-formedness main only unparks at the end
    let mut kinds: Vec<u8> = vec![];
    if p.mutex {
        kinds.extend([0, 0, 0]);
    }
    if p.rwlock {
        kinds.extend([1, 1]);
    }
    if p.condvar {
        kinds.extend([2, 2]);
    }
    if p.channel {
        kinds.extend([3, 3]);
    }
    if p.park {
        kinds.extend([4, 4]);
    }
    if p.notify {
        kinds.extend([5]);
    }
    if p.atomics {
        kinds.extend([6]);
    }
    if p.cells {
        kinds.extend([7]);
    }
    if p.yields {
        kinds.push(8);
    }
    if p.probes {
        kinds.extend([9, 9, 9]);
    }
    if p.conditionals {
        kinds.extend([10, 10]);
    }
    let mut probe_writer: [Option<usize>; 3] = [None; 3];
    let mut probe_val = [0u8; 3];
    if kinds.is_empty() {
        kinds.push(6);
    }
    // "parker" threads only park / unpark (and touch cells / atomics): the only legal unpark targets
    let mut parker = vec![false; nth];
    if p.park && !p.unpark_any {
        for t in 1..nth {
            parker[t] = s.chance(1, 2);
        }
        if !parker.iter().any(|&b| b) {
            parker[nth - 1] = true;
        }
    }
    let mut made = 0;
    let mut guard = 0;
    while made < total && guard < 200 {
        guard += 1;
        let t = s.pick(nth);
        let th = &mut st[t];
        if th.ops.len() >= 5 {
            continue;
        }
        let mut kind = kinds[s.pick(kinds.len())];
        if parker[t] && !matches!(kind, 4 | 6 | 7 | 8 | 9) {
            kind = 4;
        }
        match kind {
            0 => {
                // mutex section step
                let m = s.pick(nmtx.max(1));
                if th.held[m] {
                    match s.pick(if p.try_lock { 5 } else { 4 }) {
                        // try_lock on a mutex this thread holds: must report WouldBlock
                        4 => th.ops.push(Op::TryLock { m: m as u8 }),
                        0 | 1 => th.ops.push(Op::Incr { m: m as u8 }),
                        2 => th.ops.push(Op::Get { m: m as u8 }),
                        _ => {
                            th.ops.push(Op::Unlock { m: m as u8 });
                            th.held[m] = false;
                        }
                    }
                } else {
                    if p.ordered_locks && (m + 1..2).any(|j| th.held[j]) {
                        continue;
                    }
                    if p.try_lock && s.chance(1, 3) {
                        th.ops.push(Op::TryLock { m: m as u8 });
                        // the guard may or may not be held afterwards; to keep later ops
                        // well-formed a try_lock section is closed immediately by an Unlock
                        // (a no-op when the try failed)
                        th.ops.push(Op::Unlock { m: m as u8 });
                        made += 1;
                    } else {
                        th.ops.push(Op::Lock { m: m as u8 });
                        th.held[m] = true;
                        th.ops.push(Op::Incr { m: m as u8 });
                        made += 1;
                    }
                }
                made += 1;
            }
            1 => {
                if th.wheld {
                    if p.try_rw && s.chance(1, 4) {
                        // try_read / try_write while holding the write guard: must fail
                        th.ops.push(if s.chance(1, 2) { Op::TryRead { r: 0 } } else { Op::TryWrite { r: 0 } });
                    } else if s.chance(1, 2) {
                        th.ops.push(Op::RwGet { r: 0 });
                    } else {
                        th.ops.push(Op::UnlockW { r: 0 });
                        th.wheld = false;
                    }
                } else if th.rheld {
                    if p.try_rw && s.chance(1, 4) {
                        // try_write while holding a read guard: must fail
                        th.ops.push(Op::TryWrite { r: 0 });
                    } else if s.chance(1, 2) {
                        th.ops.push(Op::RwGet { r: 0 });
                    } else {
                        th.ops.push(Op::UnlockR { r: 0 });
                        th.rheld = false;
                    }
                } else {
                    let is_try = p.try_rw && s.chance(1, 3);
                    if s.chance(1, 2) {
                        if is_try {
                            th.ops.push(Op::TryRead { r: 0 });
                            th.ops.push(Op::UnlockR { r: 0 });
                        } else {
                            th.ops.push(Op::Read { r: 0 });
                            th.rheld = true;
                        }
                    } else if is_try {
                        th.ops.push(Op::TryWrite { r: 0 });
                        th.ops.push(Op::UnlockW { r: 0 });
                    } else {
                        th.ops.push(Op::Write { r: 0 });
                        th.wheld = true;
                    }
                }
                made += 1;
            }
            2 => {
                // condvar on mutex 0
                if th.held[0] {
                    match s.pick(4) {
                        0 => th.ops.push(Op::CvWait { cv: 0, m: 0 }),
                        1 => th.ops.push(Op::CvWaitWhileZero { cv: 0, m: 0 }),
                        2 => th.ops.push(Op::Incr { m: 0 }),
                        _ => th.ops.push(if s.chance(1, 2) { Op::NotifyOne { cv: 0 } } else { Op::NotifyAll { cv: 0 } }),
                    }
                } else if s.chance(1, 2) {
                    if p.ordered_locks && th.held[1] {
                        continue;
                    }
                    th.ops.push(Op::Lock { m: 0 });
                    th.held[0] = true;
                } else {
                    th.ops.push(if s.chance(1, 2) { Op::NotifyOne { cv: 0 } } else { Op::NotifyAll { cv: 0 } });
                }
                made += 1;
            }
            3 => {
                if t == rx_owner && s.chance(1, 2) {
                    if p.try_recv && s.chance(1, 3) {
                        th.ops.push(Op::TryRecv);
                    } else {
                        th.ops.push(Op::Recv);
                    }
                    recvs += 1;
                } else {
                    th.ops.push(Op::Send { v: next_msg });
                    next_msg += 1;
                    sends += 1;
                }
                made += 1;
            }
            4 => {
                if s.chance(1, 2) {
                    th.ops.push(Op::Park);
                } else {
                    // handles available to t: main (0) and earlier threads; main has every child's
                    // handle once it has spawned them (all spawns precede main's first unpark)
                    let cands: Vec<usize> = if p.unpark_any {
                        (0..nth).filter(|&u| u != t && (t == 0 || u == 0 || u < t)).collect()
                    } else {
                        (1..nth).filter(|&u| u != t && parker[u] && (t == 0 || u < t)).collect()
                    };
                    if cands.is_empty() {
                        th.ops.push(Op::Park);
                    } else {
                        let u = cands[s.pick(cands.len())];
                        th.ops.push(Op::Unpark { t: u as u8 });
                    }
                }
                made += 1;
            }
            5 => {
                if t == nf_waiter && s.chance(1, 2) {
                    th.ops.push(Op::NfWait { n: 0 });
                } else {
                    th.ops.push(Op::NfNotify { n: 0 });
                }
                made += 1;
            }
            6 => {
                let a = s.pick(2) as u8;
                if s.chance(1, 2) {
                    th.ops.push(Op::Load { a, o: MO::Sc });
                } else {
                    th.ops.push(Op::Store { a, v: next_val, o: MO::Sc });
                    next_val += 1;
                }
                made += 1;
            }
            7 => {
                let c = 0u8;
                th.ops.push(if s.chance(1, 2) { Op::CellRead { c } } else { Op::CellWrite { c } });
                made += 1;
            }
            10 => {
                // only after an operation that produced a result
                let has_result = th.ops.iter().any(|o| {
                    matches!(o, Op::Incr { .. } | Op::Get { .. } | Op::Load { .. } | Op::Read { .. } | Op::Write { .. } | Op::RwGet { .. } | Op::Recv | Op::TryRecv | Op::TryLock { .. })
                });
                if !has_result || matches!(th.ops.last(), Some(Op::SkipNextUnless { .. })) {
                    continue;
                }
                let v = s.pick(3) as i8;
                // the guarded operation must be harmless to skip
                let mut guarded: Vec<Op> = vec![Op::Yield];
                if t == 0 && k >= 1 && !p.late_spawn {
                    guarded.push(Op::Join { t: (1 + s.pick(k)) as u8 });
                    guarded.push(Op::Join { t: (1 + s.pick(k)) as u8 });
                }
                if p.condvar {
                    guarded.push(Op::NotifyAll { cv: 0 });
                    guarded.push(Op::NotifyOne { cv: 0 });
                }
                if p.notify {
                    guarded.push(Op::NfNotify { n: 0 });
                }
                if p.channel {
                    guarded.push(Op::Send { v: next_msg });
                    next_msg += 1;
                }
                if p.probes || p.atomics {
                    guarded.push(Op::Load { a: 0, o: MO::Sc });
                }
                let g = guarded[s.pick(guarded.len())].clone();
                th.ops.push(Op::SkipNextUnless { v });
                th.ops.push(g);
                made += 1;
            }
            9 => {
                let a = s.pick(3);
                let can_write = probe_writer[a].map(|w| w == t).unwrap_or(true) && probe_val[a] < 3;
                if can_write && s.chance(1, 2) {
                    probe_writer[a] = Some(t);
                    probe_val[a] += 1;
                    th.ops.push(Op::Store { a: a as u8, v: probe_val[a], o: MO::Rlx });
                } else {
                    th.ops.push(Op::Load { a: a as u8, o: MO::Rlx });
                }
                made += 1;
            }
            _ => {
                th.ops.push(Op::Yield);
                made += 1;
            }
        }
    }
    let _ = (sends, recvs);
    // close open sections
    for th in st.iter_mut() {
        if th.rheld {
            th.ops.push(Op::UnlockR { r: 0 });
        }
        if th.wheld {
            th.ops.push(Op::UnlockW { r: 0 });
        }
        for m in (0..2).rev() {
            if th.held[m] {
                th.ops.push(Op::Unlock { m: m as u8 });
            }
        }
    }
    let mut threads: Vec<Vec<Op>> = st.into_iter().map(|t| t.ops).collect();
    // spawns in main. Main may only unpark a child after spawning it: spawn
    // everything before main's first Unpark.
    let body = std::mem::take(&mut threads[0]);
    let first_unpark = body.iter().position(|op| matches!(op, Op::Unpark { .. })).unwrap_or(body.len());
    let mut pos: Vec<usize> = (1..nth).map(|_| if p.late_spawn { s.pick(first_unpark + 1) } else { 0 }).collect();
    pos.sort();
    let mut main = vec![];
    let mut next = 1;
    for (i, op) in body.into_iter().enumerate() {
        while next < nth && pos[next - 1] <= i {
            main.push(Op::Spawn { t: next as u8 });
            next += 1;
        }
        main.push(op);
    }
    while next < nth {
        main.push(Op::Spawn { t: next as u8 });
        next += 1;
    }
    // joins
    let mut joined = vec![false; nth];
    if p.child_joins {
        for u in 2..nth {
            if !parker[u] && s.chance(1, 4) {
                let t = 1 + s.pick(u - 1);
                if !joined[t] {
                    joined[t] = true;
                    let at = s.pick(threads[u].len() + 1);
                    // do not put a join inside a critical section prefix that breaks guard pairing: any position is fine
                    threads[u].insert(at, Op::Join { t: t as u8 });
                }
            }
        }
    }
    if p.joins {
        for t in 1..nth {
            if !joined[t] {
                if p.joins_inside && s.chance(1, 2) {
                    // anywhere after the spawn of that thread
                    let sp = main.iter().position(|o| matches!(o, Op::Spawn { t: x } if *x as usize == t)).unwrap_or(0);
                    let at = sp + 1 + s.pick(main.len() - sp);
                    main.insert(at, Op::Join { t: t as u8 });
                } else {
                    main.push(Op::Join { t: t as u8 });
                }
            }
        }
    }
    if p.final_exclusive && p.joins && !p.child_joins {
        // every child is joined by main at this point (conditional joins may have been skipped: join again)
        for t in 1..nth {
            main.push(Op::Join { t: t as u8 });
        }
        for m in 0..nmtx {
            main.push(if s.chance(1, 2) { Op::MtxGetMut { m: m as u8 } } else { Op::MtxIntoInner { m: m as u8 } });
        }
        if p.rwlock {
            main.push(if s.chance(1, 2) { Op::RwGetMut { r: 0 } } else { Op::RwIntoInner { r: 0 } });
        }
        if s.chance(1, 2) && nmtx > 0 {
            // the slot must still work after into_inner / get_mut
            main.extend([Op::Lock { m: 0 }, Op::Incr { m: 0 }, Op::Unlock { m: 0 }, Op::MtxGetMut { m: 0 }]);
        }
    }
    threads[0] = main;
    Program { threads, rx_owner: rx_owner as u8, arc_owner: vec![] }
}

// ---------------------------------------------------------------------------------
// hand-over shapes: a non-atomic cell protected by (or handed over through) a primitive
// ---------------------------------------------------------------------------------

fn spawn_all(threads: &mut Vec<Vec<Op>>, main_pre: Vec<Op>, main_post: Vec<Op>, join: bool) {
    let n = threads.len();
    let mut main = main_pre;
    for t in 1..n {
        main.push(Op::Spawn { t: t as u8 });
    }
    main.extend(std::mem::take(&mut threads[0]));
    if join {
        for t in 1..n {
            main.push(Op::Join { t: t as u8 });
        }
    }
    main.extend(main_post);
    threads[0] = main;
}

/// Critical sections around a cell; with probability 1/4 per thread the access is
/// (wrongly) placed outside the section: negative control by construction.
pub fn lock_handover(s: &mut Src) -> Program {
    let k = s.range(2, 3);
    let use_rw = s.chance(1, 2);
    let main_takes_part = s.chance(1, 3);
    let mut threads: Vec<Vec<Op>> = vec![vec![]; k + 1];
    for t in 0..=k {
        if t == 0 && !main_takes_part {
            continue;
        }
        let outside = s.chance(1, 4);
        let write = s.chance(1, 2);
        let access = if write { Op::CellWrite { c: 0 } } else { Op::CellRead { c: 0 } };
        let (enter, leave) = if use_rw {
            if write || s.chance(1, 3) {
                (Op::Write { r: 0 }, Op::UnlockW { r: 0 })
            } else {
                (Op::Read { r: 0 }, Op::UnlockR { r: 0 })
            }
        } else {
            (Op::Lock { m: 0 }, Op::Unlock { m: 0 })
        };
        let ops = &mut threads[t];
        // an inner critical section on another mutex makes the partial-order reduction explore
        // overlapping outer sections (two readers inside at once)
        let inner = [Op::Lock { m: 1 }, Op::Incr { m: 1 }, Op::Unlock { m: 1 }];
        if outside {
            if s.chance(1, 2) {
                ops.extend([access, enter, leave]);
            } else {
                ops.extend([enter, leave, access]);
            }
        } else {
            ops.push(enter);
            match s.pick(4) {
                0 => {
                    ops.extend(inner.clone());
                    ops.push(access);
                }
                1 => {
                    ops.push(access);
                    ops.extend(inner.clone());
                }
                _ => ops.push(access),
            }
            if !use_rw && s.chance(1, 3) {
                ops.push(Op::Incr { m: 0 });
            }
            ops.push(leave);
        }
    }
    let join = s.chance(1, 2);
    let post = if join && s.chance(1, 2) { vec![Op::CellRead { c: 0 }] } else { vec![] };
    spawn_all(&mut threads, vec![], post, join);
    Program { threads, rx_owner: 0, arc_owner: vec![] }
}

/// Shapes with data-dependent control flow: a thread inspects shared state under a lock and,
/// depending on what it saw, waits for the other thread while still holding the lock.
pub fn cond_shape(s: &mut Src) -> Program {
    let use_rw = s.chance(1, 2);
    // the worker's critical section, followed by a tail that must not matter
    let mut w: Vec<Op> = if use_rw {
        vec![Op::Write { r: 0 }, Op::UnlockW { r: 0 }]
    } else {
        vec![Op::Lock { m: 0 }, Op::Incr { m: 0 }, Op::Unlock { m: 0 }]
    };
    match s.pick(4) {
        0 => w.push(Op::Yield),
        1 => {
            w.push(Op::Yield);
            w.push(Op::Yield);
        }
        2 => w.push(Op::NfNotify { n: 0 }),
        _ => {}
    }
    // main: look under the lock; join the worker inside the section only if it is past its own
    let mut m: Vec<Op> = vec![Op::Spawn { t: 1 }];
    if use_rw {
        if s.chance(1, 2) {
            m.extend([Op::Read { r: 0 }, Op::SkipNextUnless { v: 1 }, Op::Join { t: 1 }, Op::UnlockR { r: 0 }]);
        } else {
            m.extend([Op::Write { r: 0 }, Op::SkipNextUnless { v: 2 }, Op::Join { t: 1 }, Op::UnlockW { r: 0 }]);
        }
    } else {
        m.extend([Op::Lock { m: 0 }, Op::Incr { m: 0 }, Op::SkipNextUnless { v: 2 }, Op::Join { t: 1 }, Op::Unlock { m: 0 }]);
    }
    if s.chance(1, 5) {
        // planted: join unconditionally inside the section (a real deadlock when main got the lock first)
        let i = m.iter().position(|o| matches!(o, Op::SkipNextUnless { .. })).unwrap();
        m.remove(i);
    }
    m.push(Op::Join { t: 1 });
    Program { threads: vec![m, w], rx_owner: 0, arc_owner: vec![] }
}

/// Classical wait/notify shapes with a cell handed from the notifier to the waiter.
pub fn wait_shape(s: &mut Src) -> Program {
    let w = Op::CellWrite { c: 0 };
    let r = Op::CellRead { c: 0 };
    let mut threads: Vec<Vec<Op>>;
    let mut join = s.chance(1, 2);
    match s.pick(9) {
        // the waiter is main (it reaches the wait before the notifier runs in loom's first schedule);
        // the notifier publishes outside of / after its critical section, or never locks at all
        7 | 8 => {
            let probe = s.chance(1, 2);
            let (wr, rd) = if probe { (Op::Store { a: 0, v: 1, o: MO::Rlx }, Op::Load { a: 0, o: MO::Rlx }) } else { (w.clone(), r.clone()) };
            let pred = s.chance(1, 2);
            let mut m = vec![Op::Spawn { t: 1 }, Op::Lock { m: 0 }];
            m.push(if pred { Op::CvWaitWhileZero { cv: 0, m: 0 } } else { Op::CvWait { cv: 0, m: 0 } });
            m.push(Op::Unlock { m: 0 });
            m.push(rd);
            let mut n: Vec<Op> = vec![];
            let locked = pred || s.chance(1, 2);
            match s.pick(3) {
                0 => {
                    n.push(wr.clone());
                    if locked {
                        n.extend([Op::Lock { m: 0 }, Op::Incr { m: 0 }, Op::Unlock { m: 0 }]);
                    }
                }
                _ => {
                    if locked {
                        n.extend([Op::Lock { m: 0 }, Op::Incr { m: 0 }, Op::Unlock { m: 0 }]);
                    }
                    n.push(wr.clone());
                }
            }
            n.push(if s.chance(1, 2) { Op::NotifyOne { cv: 0 } } else { Op::NotifyAll { cv: 0 } });
            if s.chance(1, 2) {
                m.push(Op::Join { t: 1 });
            }
            return Program { threads: vec![m, n], rx_owner: 0, arc_owner: vec![] };
        }
        // condvar with predicate; notifier variants
        0 | 1 => {
            let nwait = s.range(1, 2);
            threads = vec![vec![]; nwait + 1];
            for t in 1..=nwait {
                threads[t] = vec![Op::Lock { m: 0 }, Op::CvWaitWhileZero { cv: 0, m: 0 }, Op::Unlock { m: 0 }, r.clone()];
                if s.chance(1, 4) {
                    // plain wait (no predicate): may miss the notification
                    threads[t][1] = Op::CvWait { cv: 0, m: 0 };
                }
            }
            let notify = match s.pick(4) {
                0 => vec![Op::NotifyAll { cv: 0 }],
                1 => vec![Op::NotifyOne { cv: 0 }],
                2 => vec![Op::NotifyOne { cv: 0 }, Op::NotifyOne { cv: 0 }],
                _ => vec![],
            };
            let mut m = vec![w.clone(), Op::Lock { m: 0 }, Op::Incr { m: 0 }];
            if s.chance(1, 2) {
                m.extend(notify);
                m.push(Op::Unlock { m: 0 });
            } else {
                m.push(Op::Unlock { m: 0 });
                m.extend(notify);
            }
            if s.chance(1, 5) {
                // write after publishing: race by construction
                m.push(w.clone());
            }
            threads[0] = m;
        }
        // park / unpark
        2 | 3 => {
            threads = vec![vec![], vec![Op::Park, r.clone()]];
            if s.chance(1, 4) {
                threads[1].insert(0, Op::Park);
            }
            let mut m = vec![w.clone(), Op::Unpark { t: 1 }];
            if s.chance(1, 3) {
                m.push(Op::Unpark { t: 1 });
            }
            if s.chance(1, 5) {
                m.swap(0, 1);
            }
            threads[0] = m;
        }
        // Notify (one waiter)
        4 => {
            threads = vec![vec![], vec![Op::NfWait { n: 0 }, r.clone()]];
            if s.chance(1, 3) {
                threads[1].insert(1, Op::NfWait { n: 0 });
            }
            let mut m = vec![w.clone(), Op::NfNotify { n: 0 }];
            if s.chance(1, 3) {
                m.push(Op::NfNotify { n: 0 });
            }
            threads[0] = m;
        }
        // join chains
        5 => {
            join = false;
            threads = vec![vec![], vec![w.clone()], vec![Op::Join { t: 1 }, r.clone()]];
            if s.chance(1, 3) {
                threads[2].swap(0, 1);
            }
            threads[0] = vec![];
            let mut p = Program { threads, rx_owner: 0, arc_owner: vec![] };
            let mut main = vec![Op::Spawn { t: 1 }, Op::Spawn { t: 2 }, Op::Join { t: 2 }];
            if s.chance(1, 2) {
                main.push(w.clone());
            }
            p.threads[0] = main;
            return p;
        }
        // two condvar waiters, notify_one + notify_one / notify_all, no predicate
        _ => {
            threads = vec![
                vec![],
                vec![Op::Lock { m: 0 }, Op::CvWait { cv: 0, m: 0 }, Op::Get { m: 0 }, Op::Unlock { m: 0 }],
                vec![Op::Lock { m: 0 }, Op::CvWait { cv: 0, m: 0 }, Op::Get { m: 0 }, Op::Unlock { m: 0 }],
            ];
            threads[0] = match s.pick(3) {
                0 => vec![Op::Lock { m: 0 }, Op::Incr { m: 0 }, Op::NotifyAll { cv: 0 }, Op::Unlock { m: 0 }],
                1 => vec![Op::NotifyOne { cv: 0 }, Op::Lock { m: 0 }, Op::Incr { m: 0 }, Op::Unlock { m: 0 }, Op::NotifyOne { cv: 0 }],
                _ => vec![Op::Lock { m: 0 }, Op::Incr { m: 0 }, Op::Unlock { m: 0 }, Op::NotifyOne { cv: 0 }],
            };
        }
    }
    let post = if join && s.chance(1, 3) { vec![r.clone()] } else { vec![] };
    spawn_all(&mut threads, vec![], post, join);
    Program { threads, rx_owner: 0, arc_owner: vec![] }
}

/// Senders write a cell and then send; the receiver reads the cell after receiving.
pub fn chan_handover(s: &mut Src) -> Program {
    let nsend = s.range(1, 2);
    let rx_in_main = s.chance(1, 2);
    let n = if rx_in_main { nsend + 1 } else { nsend + 2 };
    let rx = if rx_in_main { 0 } else { n - 1 };
    let mut threads: Vec<Vec<Op>> = vec![vec![]; n];
    let mut msg = 1u8;
    let mut total = 0;
    let same_cell = s.chance(1, 3);
    let mut si = 0u8;
    for t in 0..n {
        if t == rx || (t == 0 && !rx_in_main && s.chance(1, 2)) {
            continue;
        }
        let c = if same_cell { 0 } else { si % 2 };
        si += 1;
        let cnt = s.range(1, 2);
        for j in 0..cnt {
            if j == 0 || s.chance(1, 2) {
                threads[t].push(Op::CellWrite { c });
            }
            threads[t].push(Op::Send { v: msg });
            msg += 1;
            total += 1;
        }
        if s.chance(1, 6) {
            // write after the send: race by construction (if the receiver reads it)
            threads[t].push(Op::CellWrite { c });
        }
    }
    let recvs = match s.pick(4) {
        0 => total + 1, // one receive too many: deadlock
        1 if total > 1 => total - 1,
        _ => total,
    };
    for i in 0..recvs {
        threads[rx].push(Op::Recv);
        if i + 1 == recvs || s.chance(1, 2) {
            threads[rx].push(Op::CellRead { c: 0 });
            if !same_cell && s.chance(1, 2) {
                threads[rx].push(Op::CellRead { c: 1 });
            }
        }
    }
    let join = s.chance(1, 2);
    spawn_all(&mut threads, vec![], vec![], join);
    Program { threads, rx_owner: rx as u8, arc_owner: vec![] }
}

/// Message chains: data is published through 1-2 hops of flags; every publish is one of
/// {release store, release-ish fence + relaxed store, relaxed store}, every consume one of
/// {acquire load, relaxed load + acquire-ish fence, relaxed load}; a middle thread may use a
/// single AcqRel/SeqCst fence between its load and its store. Exercises every fence path.
pub fn litmus_chain(s: &mut Src, p: &LitmusParams) -> Program {
    let hops = s.range(1, 2);
    let data: u8 = hops as u8; // location of the payload; flags are 0..hops
    let rel_f = [MO::Rel, MO::AcqRel, MO::Sc];
    let acq_f = [MO::Acq, MO::AcqRel, MO::Sc];
    let publish = |s: &mut Src, ops: &mut Vec<Op>, flag: u8, fenced_already: bool| {
        match if p.sc_only { 0 } else { s.pick(4) } {
            0 => ops.push(Op::Store { a: flag, v: 1, o: if p.sc_only { MO::Sc } else { s.of(&[MO::Rel, MO::Sc]) } }),
            1 | 2 => {
                if !fenced_already {
                    ops.push(Op::Fence { o: s.of(&rel_f) });
                }
                ops.push(Op::Store { a: flag, v: 1, o: MO::Rlx });
            }
            _ => ops.push(Op::Store { a: flag, v: 1, o: MO::Rlx }),
        }
    };
    let consume = |s: &mut Src, ops: &mut Vec<Op>, flag: u8| -> bool {
        match if p.sc_only { 0 } else { s.pick(4) } {
            0 => {
                ops.push(Op::Load { a: flag, o: if p.sc_only { MO::Sc } else { s.of(&[MO::Acq, MO::Sc]) } });
                false
            }
            1 | 2 => {
                ops.push(Op::Load { a: flag, o: MO::Rlx });
                let f = s.of(&acq_f);
                ops.push(Op::Fence { o: f });
                f != MO::Acq
            }
            _ => {
                ops.push(Op::Load { a: flag, o: MO::Rlx });
                false
            }
        }
    };
    let mut threads: Vec<Vec<Op>> = vec![vec![]];
    // producer
    let mut t = vec![Op::Store { a: data, v: 1, o: if p.sc_only { MO::Sc } else { s.of(&STORE_ORDS) } }];
    publish(s, &mut t, 0, false);
    threads.push(t);
    // middle threads
    for h in 1..hops {
        let mut t = vec![];
        let fenced = consume(s, &mut t, (h - 1) as u8);
        publish(s, &mut t, h as u8, fenced);
        threads.push(t);
    }
    // consumer
    let mut t = vec![];
    let fenced_sc = consume(s, &mut t, (hops - 1) as u8) && matches!(t.last(), Some(Op::Fence { o: MO::Sc }));
    let mut nlocs = hops + 1;
    if !p.sc_only && p.fences && s.chance(1, 4) {
        // last hop through the total order of SeqCst fences (store-buffering shape): the thread that
        // consumed the flag fences and reads `b`; another thread writes `b`, fences and reads the
        // payload. If the first does not see `b`, its fence precedes the other one, which therefore
        // sees everything the first had acquired before (or by) its fence.
        let b = nlocs as u8;
        nlocs += 1;
        if !fenced_sc {
            t.push(Op::Fence { o: MO::Sc });
        }
        t.push(Op::Load { a: b, o: MO::Rlx });
        threads.push(t);
        t = vec![Op::Store { a: b, v: 1, o: MO::Rlx }, Op::Fence { o: MO::Sc }];
    }
    t.push(Op::Load { a: data, o: if p.sc_only { MO::Sc } else { s.of(&LOAD_ORDS) } });
    threads.push(t);
    // optionally a second write to the payload by the producer before publishing (coherence)
    if s.chance(1, 4) {
        threads[1].insert(1, Op::Store { a: data, v: 2, o: MO::Rlx });
    }
    wrap_main(s, threads, nlocs, p.joins, p.late_spawn)
}

/// Programs over the harness's two loom thread-locals and two loom lazy statics, with SeqCst
/// atomics in between as scheduling points.
pub fn tls_lazy_prog(s: &mut Src, max_threads: usize, max_ops: usize, atomics: bool) -> Program {
    let k = s.range(1, max_threads.max(1));
    let nth = k + 1;
    let mut threads: Vec<Vec<Op>> = vec![vec![]; nth];
    let total = s.range(2.min(max_ops), max_ops);
    let mut next_val = 1u8;
    for _ in 0..total {
        let t = s.pick(nth);
        if threads[t].len() >= 4 {
            continue;
        }
        let key = s.pick(2) as u8;
        let op = match s.pick(if atomics { 8 } else { 6 }) {
            0 => Op::TlsWith { k: key },
            1 => Op::TlsBump { k: key },
            2 => Op::TlsNested { k: key },
            3 | 4 => Op::LazyGet { k: if s.chance(1, 4) { 2 } else { key } },
            5 => Op::LazyCellRead { k: if s.chance(1, 3) { 2 } else { key } },
            6 => Op::Load { a: 0, o: MO::Sc },
            _ => {
                next_val += 1;
                Op::Store { a: 0, v: next_val, o: MO::Sc }
            }
        };
        threads[t].push(op);
    }
    // loom drops the lazy statics when the model closure returns: a spawned thread that uses one
    // must be joined (otherwise loom's documented "access during shutdown" panic is possible)
    let child_lazy = threads[1..].iter().any(|ops| ops.iter().any(|o| matches!(o, Op::LazyGet { .. } | Op::LazyCellRead { .. })));
    let join = s.chance(2, 3) || child_lazy;
    let late = s.chance(1, 2);
    // spawns: before main's ops, or interleaved
    let body = std::mem::take(&mut threads[0]);
    let mut main = vec![];
    let mut pos: Vec<usize> = (1..nth).map(|_| if late { s.pick(body.len() + 1) } else { 0 }).collect();
    pos.sort();
    let mut next = 1;
    for (i, op) in body.into_iter().enumerate() {
        while next < nth && pos[next - 1] <= i {
            main.push(Op::Spawn { t: next as u8 });
            next += 1;
        }
        main.push(op);
    }
    while next < nth {
        main.push(Op::Spawn { t: next as u8 });
        next += 1;
    }
    if join {
        for t in 1..nth {
            main.push(Op::Join { t: t as u8 });
        }
        if s.chance(1, 2) {
            main.push(Op::LazyGet { k: s.pick(2) as u8 });
        }
    }
    threads[0] = main;
    Program { threads, rx_owner: 0, arc_owner: vec![] }
}

// ---------------------------------------------------------------------------------
// Arc / Track / alloc programs (C10, C11)
// ---------------------------------------------------------------------------------

#[derive(Clone, Debug, Default)]
pub struct ArcParams {
    /// inspection operations (strong_count, get_mut, try_unwrap)
    pub inspect: bool,
    /// leak paths (forget, into_raw without from_raw ...)
    pub leaks: bool,
    /// Track / alloc / channel objects as well
    pub tracked: bool,
    /// payload cell writes / reads by owners
    pub cells: bool,
    pub max_threads: usize,
    pub max_ops: usize,
}

/// Programs over `loom::sync::Arc` handles (and optionally `Track`, raw allocations, messages).
/// Handles reach other threads only by being cloned for them before they are spawned. A
/// `try_unwrap` is always the last operation a thread performs on that Arc (its outcome decides
/// whether the handle is consumed).
pub fn arc_prog(s: &mut Src, p: &ArcParams) -> Program {
    let k = s.range(1, p.max_threads.max(1));
    let nth = k + 1;
    let narcs = s.range(1, 2);
    let mut threads: Vec<Vec<Op>> = vec![vec![]; nth];
    // every arc starts in main; main clones for the children before spawning them
    let mut handles = vec![vec![0usize; narcs]; nth];
    let mut closed = vec![vec![false; narcs]; nth]; // after try_unwrap: no more ops on that arc
    for x in 0..narcs {
        handles[0][x] = 1;
    }
    let mut pre: Vec<Op> = vec![];
    for t in 1..nth {
        for x in 0..narcs {
            if s.chance(2, 3) {
                pre.push(Op::ArcClone { x: x as u8, to: t as u8 });
                handles[t][x] += 1;
            }
        }
    }
    // main may give its own handle away completely (drop after cloning)
    let total = s.range(2.min(p.max_ops), p.max_ops);
    let mut track_new = [false; 2];
    let mut alloc_new = [false; 2];
    let mut made = 0;
    let mut guard = 0;
    while made < total && guard < 100 {
        guard += 1;
        let t = s.pick(nth);
        if threads[t].len() >= 5 {
            continue;
        }
        if p.tracked && s.chance(1, 3) {
            let kx = s.pick(2);
            let op = match s.pick(6) {
                0 | 1 if !track_new[kx] => {
                    track_new[kx] = true;
                    Op::TrackNew { k: kx as u8 }
                }
                2 => {
                    if s.chance(1, 4) {
                        Op::TrackDropUnwind { k: kx as u8 }
                    } else {
                        Op::TrackDrop { k: kx as u8 }
                    }
                }
                3 if p.leaks => Op::TrackForget { k: kx as u8 },
                4 if !alloc_new[kx] => {
                    alloc_new[kx] = true;
                    Op::Alloc { k: kx as u8 }
                }
                _ => {
                    if s.chance(1, 4) {
                        Op::DeallocUnwind { k: kx as u8 }
                    } else {
                        Op::Dealloc { k: kx as u8 }
                    }
                }
            };
            threads[t].push(op);
            made += 1;
            continue;
        }
        let x = s.pick(narcs);
        if handles[t][x] == 0 || closed[t][x] {
            continue;
        }
        let xb = x as u8;
        let choice = s.pick(12);
        let op = match choice {
            0 | 1 => {
                handles[t][x] += 1;
                Op::ArcClone { x: xb, to: t as u8 }
            }
            2 | 3 if handles[t][x] >= 1 => {
                handles[t][x] -= 1;
                if s.chance(1, 5) {
                    Op::ArcDropUnwind { x: xb }
                } else {
                    Op::ArcDrop { x: xb }
                }
            }
            4 if p.inspect => Op::ArcCount { x: xb },
            5 if p.inspect => {
                if p.cells && s.chance(1, 2) {
                    // exclusive access after a successful get_mut: `if let Some(v) = Arc::get_mut(..) { write }`
                    threads[t].push(Op::ArcGetMut { x: xb });
                    threads[t].push(Op::SkipNextUnless { v: 1 });
                    made += 1;
                    Op::ArcCellWrite { x: xb }
                } else {
                    Op::ArcGetMut { x: xb }
                }
            }
            6 if p.inspect && handles[t][x] == 1 => {
                closed[t][x] = true;
                Op::ArcTryUnwrap { x: xb }
            }
            7 => Op::ArcRawRoundTrip { x: xb },
            8 => {
                handles[t][x] += 1;
                Op::ArcIncStrong { x: xb }
            }
            9 => {
                handles[t][x] -= 1;
                Op::ArcDecStrong { x: xb }
            }
            10 if p.leaks => {
                handles[t][x] -= 1;
                Op::ArcForget { x: xb }
            }
            11 if p.cells => {
                if s.chance(1, 2) {
                    Op::ArcCellWrite { x: xb }
                } else {
                    Op::ArcCellRead { x: xb }
                }
            }
            _ => {
                if p.inspect {
                    Op::ArcCount { x: xb }
                } else {
                    Op::ArcRawRoundTrip { x: xb }
                }
            }
        };
        threads[t].push(op);
        made += 1;
    }
    // a handle-less thread must not touch the arc: by construction above. Main: pre-clones, spawns, body
    let body = std::mem::take(&mut threads[0]);
    let mut main = pre;
    for t in 1..nth {
        main.push(Op::Spawn { t: t as u8 });
    }
    main.extend(body);
    if s.chance(1, 2) {
        for t in 1..nth {
            main.push(Op::Join { t: t as u8 });
        }
    }
    threads[0] = main;
    Program { threads, rx_owner: 0, arc_owner: vec![0; narcs] }
}

/// Lock convoys: one thread holds a lock while two others are (or may be) blocked on it; each
/// waiter announces itself on an atomic counter before it asks for the lock, the holder reads the
/// counter inside its critical section. Every order in which the waiters get the lock after the
/// release is a distinct result (the protected counter), also when both were already blocked.
pub fn convoy(s: &mut Src) -> Program {
    let kind = s.pick(3);
    let acquire = |w: bool| -> Vec<Op> {
        match (kind, w) {
            (0, _) => vec![Op::Lock { m: 0 }, Op::Incr { m: 0 }],
            (_, true) => vec![Op::Write { r: 0 }],
            (_, false) => vec![Op::Read { r: 0 }],
        }
    };
    let release = |w: bool| -> Op {
        match (kind, w) {
            (0, _) => Op::Unlock { m: 0 },
            (_, true) => Op::UnlockW { r: 0 },
            (_, false) => Op::UnlockR { r: 0 },
        }
    };
    // kind 1: everybody writes; kind 2: the holder writes, the waiters are a reader and a writer
    let waiter_writes = |i: usize| kind != 2 || i == 1;
    let mut holder: Vec<Op> = acquire(true);
    holder.push(Op::Load { a: 0, o: MO::Sc });
    holder.push(release(true));
    let mut threads: Vec<Vec<Op>> = vec![vec![]];
    for i in 0..2 {
        let w = waiter_writes(i);
        let mut t = vec![Op::FetchAdd { a: 0, v: 1, o: MO::Sc }];
        t.extend(acquire(w));
        if s.chance(1, 3) {
            t.push(Op::Load { a: 0, o: MO::Sc });
        }
        t.push(release(w));
        threads.push(t);
    }
    let holder_is_main = s.chance(2, 3);
    let mut main: Vec<Op> = vec![];
    if holder_is_main {
        main.push(Op::Spawn { t: 1 });
        main.push(Op::Spawn { t: 2 });
        main.extend(holder);
    } else {
        threads.push(holder);
        // the holder first, so that it usually owns the lock when the waiters arrive
        main.push(Op::Spawn { t: 3 });
        main.push(Op::Spawn { t: 1 });
        main.push(Op::Spawn { t: 2 });
    }
    if s.chance(1, 2) {
        for t in 1..threads.len() {
            main.push(Op::Join { t: t as u8 });
        }
    }
    threads[0] = main;
    Program { threads, rx_owner: 0, arc_owner: vec![] }
}

/// A thread performs an operation on a lock (and releases it), spawns the other thread, yields and
/// then sets a flag; the other thread takes the same lock and spins on the flag inside its critical
/// section. Nothing may keep the first thread from setting the flag: it is not waiting for the lock.
pub fn yield_after_lock_op(s: &mut Src) -> Program {
    let kind = s.pick(4);
    let mut main: Vec<Op> = match kind {
        0 => vec![Op::Lock { m: 0 }, Op::Incr { m: 0 }, Op::Unlock { m: 0 }],
        1 => vec![Op::TryLock { m: 0 }, Op::Unlock { m: 0 }],
        2 => vec![Op::Write { r: 0 }, Op::UnlockW { r: 0 }],
        _ => vec![Op::Read { r: 0 }, Op::UnlockR { r: 0 }],
    };
    let spin = s.chance(1, 2);
    let mut child: Vec<Op> = match kind {
        0 | 1 => vec![Op::Lock { m: 0 }, Op::Incr { m: 0 }, Op::Await { a: 0, v: 1, o: MO::Sc, spin }, Op::Unlock { m: 0 }],
        _ => {
            if s.chance(1, 2) {
                vec![Op::Write { r: 0 }, Op::Await { a: 0, v: 1, o: MO::Sc, spin }, Op::UnlockW { r: 0 }]
            } else {
                vec![Op::Read { r: 0 }, Op::Await { a: 0, v: 1, o: MO::Sc, spin }, Op::UnlockR { r: 0 }]
            }
        }
    };
    if s.chance(1, 3) {
        child.push(Op::Load { a: 0, o: MO::Sc });
    }
    main.push(Op::Spawn { t: 1 });
    if s.chance(3, 4) {
        main.push(Op::Yield);
    }
    main.push(Op::Store { a: 0, v: 1, o: MO::Sc });
    if s.chance(1, 2) {
        main.push(Op::Join { t: 1 });
    }
    Program { threads: vec![main, child], rx_owner: 0, arc_owner: vec![] }
}

/// One thread waits k times on the same `Notify`, one or two others notify j times in total.
/// The reference allows one spurious return per Notify: with k > j + 1 every execution deadlocks.
pub fn multi_wait(s: &mut Src) -> Program {
    if s.chance(1, 2) {
        // gated form: the i-th notification is issued only after the waiter came back from i-1
        // waits (it reports each return through the channel), so a return that no notification
        // (and not the one spurious wake-up) accounts for shows in the order of completed operations
        let k = s.range(2, 3);
        let mut waiter: Vec<Op> = vec![];
        let mut notifier: Vec<Op> = vec![];
        // (the notifier counts under a mutex before every notification but the first and the waiter
        // reads the counter after its last wait: the lock makes "returned before the notifier got
        // there" an order of dependent operations, which the reduction has to explore)
        for i in 0..k {
            waiter.push(Op::NfWait { n: 0 });
            if i + 1 < k {
                waiter.push(Op::Send { v: 1 + i as u8 });
            }
            if i > 0 {
                notifier.push(Op::Recv);
                notifier.extend([Op::Lock { m: 0 }, Op::Incr { m: 0 }, Op::Unlock { m: 0 }]);
            }
            notifier.push(Op::NfNotify { n: 0 });
        }
        waiter.extend([Op::Lock { m: 0 }, Op::Get { m: 0 }, Op::Unlock { m: 0 }]);
        let waiter_is_main = s.chance(1, 2);
        let mut main = vec![Op::Spawn { t: 1 }];
        let child;
        if waiter_is_main {
            main.extend(waiter);
            child = notifier;
        } else {
            main.extend(notifier);
            child = waiter;
        }
        main.push(Op::Join { t: 1 });
        return Program { threads: vec![main, child], rx_owner: if waiter_is_main { 1 } else { 0 }, arc_owner: vec![] };
    }
    let k = s.range(2, 4);
    let j = s.range(1, 2);
    let mut waiter: Vec<Op> = vec![];
    for i in 0..k {
        waiter.push(Op::NfWait { n: 0 });
        if i + 1 < k && s.chance(1, 3) {
            waiter.push(Op::FetchAdd { a: 0, v: 1, o: MO::Sc });
        }
    }
    let two = j == 2 && s.chance(1, 2);
    let mut n1: Vec<Op> = vec![];
    let mut n2: Vec<Op> = vec![];
    for i in 0..j {
        let t = if two && i == 1 { &mut n2 } else { &mut n1 };
        if s.chance(1, 3) {
            t.push(Op::Load { a: 0, o: MO::Sc });
        }
        t.push(Op::NfNotify { n: 0 });
    }
    let waiter_is_main = s.chance(1, 2);
    let mut threads: Vec<Vec<Op>> = vec![vec![]];
    threads.push(n1);
    if !n2.is_empty() {
        threads.push(n2);
    }
    if !waiter_is_main {
        threads.push(waiter.clone());
    }
    let n = threads.len();
    let mut main: Vec<Op> = (1..n).map(|t| Op::Spawn { t: t as u8 }).collect();
    if waiter_is_main {
        main.extend(waiter);
    }
    for t in 1..n {
        main.push(Op::Join { t: t as u8 });
    }
    threads[0] = main;
    Program { threads, rx_owner: 0, arc_owner: vec![] }
}

/// Wake-up crossovers: a thread polls one primitive without blocking (`try_recv`, `try_lock`,
/// an atomic load) while another thread operates on that primitive, and - depending on what the
/// poll returned - then blocks on a *different* primitive that nobody (or somebody) signals. A wake-up
/// credited to the wrong primitive (a park token or a runnable mark left over from the first one)
/// turns a certain deadlock into a completed run or the other way round.
pub fn wake_crossover(s: &mut Src) -> Program {
    // the poll and the matching action of the other thread
    let (poll, other, hit): (Vec<Op>, Vec<Op>, i8) = match s.pick(3) {
        0 => (vec![Op::TryRecv], vec![Op::Send { v: 1 }], 1),
        1 => (vec![Op::TryRecv], vec![Op::Send { v: 1 }, Op::Send { v: 2 }], 1),
        _ => (vec![Op::Load { a: 0, o: MO::Sc }], vec![Op::Store { a: 0, v: 1, o: MO::Sc }], 1),
    };
    let cond = if s.chance(2, 3) { hit } else { -1 };
    // the blocking wait that follows (skipped unless the poll returned `cond`)
    let notified = s.chance(1, 3);
    let mut waiter = poll.clone();
    let mut signaller = other.clone();
    match s.pick(4) {
        0 => {
            waiter.extend([Op::Lock { m: 0 }, Op::SkipNextUnless { v: cond }, Op::CvWait { cv: 0, m: 0 }, Op::Unlock { m: 0 }]);
            if notified {
                signaller.extend([Op::Lock { m: 0 }, Op::NotifyOne { cv: 0 }, Op::Unlock { m: 0 }]);
            }
        }
        1 => {
            waiter.extend([Op::SkipNextUnless { v: cond }, Op::Park]);
            if notified {
                signaller.push(Op::Unpark { t: 255 });
            }
        }
        2 => {
            waiter.extend([Op::SkipNextUnless { v: cond }, Op::NfWait { n: 0 }, Op::SkipNextUnless { v: cond }, Op::NfWait { n: 0 }]);
            if notified {
                signaller.push(Op::NfNotify { n: 0 });
            }
        }
        _ => {
            waiter.extend([Op::SkipNextUnless { v: cond }, Op::Recv]);
            if notified {
                signaller.push(Op::Send { v: 3 });
            }
        }
    }
    let waiter_is_main = s.chance(1, 2);
    let (mut main, child) = if waiter_is_main {
        let mut m = vec![Op::Spawn { t: 1 }];
        m.extend(waiter);
        (m, signaller)
    } else {
        let mut m = vec![Op::Spawn { t: 1 }];
        m.extend(signaller);
        (m, waiter)
    };
    let wt = if waiter_is_main { 0 } else { 1 };
    let fix = |ops: &mut Vec<Op>| {
        for o in ops.iter_mut() {
            if let Op::Unpark { t } = o {
                if *t == 255 {
                    *t = wt;
                }
            }
        }
    };
    let mut child = child;
    fix(&mut main);
    fix(&mut child);
    if s.chance(1, 2) {
        main.push(Op::Join { t: 1 });
    }
    Program { threads: vec![main, child], rx_owner: wt, arc_owner: vec![] }
}

/// Two signals (unpark / notify) reach the same waiter before it consumes one: they coalesce into
/// one stored notification, which must still carry what *both* signallers did before. Each
/// signaller writes a relaxed probe before its signal; the waiter reads the probes after waking up.
pub fn double_signal(s: &mut Src) -> Program {
    let kind = s.pick(2);
    let two = s.chance(1, 2);
    let waiter_is_main = s.chance(1, 2);
    let nsig = if two { 2 } else { 1 };
    let wt: u8 = if waiter_is_main { 0 } else { (nsig + 1) as u8 };
    let sig = |_s: &mut Src| -> Op {
        if kind == 0 {
            Op::Unpark { t: wt }
        } else {
            Op::NfNotify { n: 0 }
        }
    };
    let wait = if kind == 0 { Op::Park } else { Op::NfWait { n: 0 } };
    let mut threads: Vec<Vec<Op>> = vec![vec![]];
    if two {
        threads.push(vec![Op::Store { a: 0, v: 1, o: MO::Rlx }, sig(s)]);
        threads.push(vec![Op::Store { a: 1, v: 1, o: MO::Rlx }, sig(s)]);
    } else {
        let mut t = vec![];
        if s.chance(1, 2) {
            t.push(Op::Store { a: 0, v: 1, o: MO::Rlx });
        }
        t.push(sig(s));
        t.push(Op::Store { a: 1, v: 1, o: MO::Rlx });
        if s.chance(1, 3) {
            t.extend([Op::Lock { m: 0 }, sig(s), Op::Unlock { m: 0 }]);
        } else {
            t.push(sig(s));
        }
        threads.push(t);
    }
    let mut waiter = vec![];
    if s.chance(1, 3) {
        // look first: how many signals have been issued is not observable, but a probe read before
        // the wait pins part of the order
        waiter.push(Op::Load { a: 1, o: MO::Rlx });
    }
    waiter.push(wait);
    waiter.push(Op::Load { a: 0, o: MO::Rlx });
    waiter.push(Op::Load { a: 1, o: MO::Rlx });
    if !waiter_is_main {
        threads.push(waiter.clone());
    }
    let n = threads.len();
    let mut main: Vec<Op> = (1..n).map(|t| Op::Spawn { t: t as u8 }).collect();
    if waiter_is_main {
        main.extend(waiter);
    }
    for t in 1..n {
        main.push(Op::Join { t: t as u8 });
    }
    threads[0] = main;
    Program { threads, rx_owner: 0, arc_owner: vec![] }
}
