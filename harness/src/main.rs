mod case;
mod driver;
mod dsl;
mod gen;
mod interp;
mod known;
mod props;
mod refax;
mod refsc;
mod script;

use case::*;
use dsl::*;
use std::path::PathBuf;

fn root() -> PathBuf {
    std::env::var("LV_ROOT").map(PathBuf::from).unwrap_or_else(|_| PathBuf::from("/verif"))
}

fn tier_of(s: &str) -> Tier {
    match s {
        "thorough" => Tier::Thorough,
        _ => Tier::Quick,
    }
}

fn main() {
    let args: Vec<String> = std::env::args().collect();
    // loom panics are expected events here; keep stderr quiet
    if std::env::var("LV_VERBOSE_PANIC").is_ok() {
        std::panic::set_hook(Box::new(|i| eprintln!("PANIC: {}", i)));
    } else {
        std::panic::set_hook(Box::new(|_| {}));
    }
    let code = match args.get(1).map(|s| s.as_str()) {
        Some("worker") => {
            driver::worker_main();
            0
        }
        Some("subrun") => script::subrun_main(),
        Some("run") => {
            let prop = args.get(2).expect("property id");
            let tier = tier_of(args.get(3).map(|s| s.as_str()).unwrap_or("quick"));
            let seed: u64 = std::env::var("VERIF_SEED").ok().and_then(|s| s.parse().ok()).unwrap_or(1);
            driver::run_property(&root(), prop, tier, seed)
        }
        Some("replay") => {
            let path = PathBuf::from(args.get(2).expect("replay file"));
            driver::replay(&root(), &path, Tier::Quick)
        }
        Some("gen") => {
            // lv gen <prop> <n> [seed]: print generated cases (debugging / generator statistics)
            let prop = args.get(2).expect("prop");
            let n: usize = args.get(3).and_then(|s| s.parse().ok()).unwrap_or(10);
            let mut x: u64 = args.get(4).and_then(|s| s.parse().ok()).unwrap_or(1);
            let info = props::info(prop);
            for _ in 0..n {
                let draws: Vec<u16> = (0..info.draws)
                    .map(|_| {
                        x ^= x << 13;
                        x ^= x >> 7;
                        x ^= x << 17;
                        (x >> 16) as u16
                    })
                    .collect();
                let c = props::build(prop, &draws, Tier::Quick);
                if args.get(5).map(|s| s == "eval").unwrap_or(false) {
                    let v = props::eval(&c, Tier::Quick);
                    println!("{}\n    -> {:?} nt={} iters={} {:?} {}", c.describe(), v.status, v.nontrivial, v.loom_iters, v.labels, v.msg);
                } else {
                    println!("{}", c.describe());
                }
            }
            0
        }
        Some("eval") => {
            // lv eval <case file>: evaluate in-process (debugging)
            let c = driver::load_case_file(&PathBuf::from(&args[2])).unwrap();
            let v = props::eval(&c, Tier::Quick);
            println!("{}\n{:?}\n{}\n{}", c.describe(), v.status, v.msg, serde_json::to_string_pretty(&v.detail).unwrap());
            0
        }
        Some("try") => {
            let p: Program = serde_json::from_str(&args[2]).unwrap();
            println!("{}", p);
            let mut cfg = Config::default();
            cfg.max_permutations = Some(200_000);
            let c = interp::collect(&p, &cfg, true);
            println!("loom: iters={} panic={:?} capped={}", c.report.iters, c.report.panic, c.report.capped);
            for (o, n) in &c.outcomes {
                println!("   {}  x{}", fmt_outcome(o), n);
                if let Ok(mode) = std::env::var("LV_LOGS") {
                    let mut seen = std::collections::BTreeSet::new();
                    for r in c.records.iter().filter(|r| &r.results == o) {
                        if seen.insert(r.log.clone()) {
                            println!("        log: {:?}", r.log);
                            if mode != "all" {
                                break;
                            }
                        }
                    }
                }
            }
            {
                let mut o = refsc::Opts::new();
                o.yield_sem = true;
                let sc = refsc::explore(&p, o);
                println!("SC with yield semantics ({} states): {:?}", sc.states, sc.outcomes.iter().map(fmt_outcome).collect::<Vec<_>>());
            }
            if refax::supports(&p) {
                let b = refax::bracket(&p, 50_000_000);
                println!("A ({} execs): {:?}", b.a.execs, b.a.outcomes.iter().map(fmt_outcome).collect::<Vec<_>>());
                println!("U ({} execs): {:?}", b.u.execs, b.u.outcomes.iter().map(fmt_outcome).collect::<Vec<_>>());
                println!("racy must={} may={}", b.a.racy, b.u.racy);
            }
            let mut o = refsc::Opts::new();
            o.clocks = true;
            let sc = refsc::explore(&p, o);
            println!(
                "SC ({} states): {:?} deadlock={} leaks={:?} race min={} max={} adj={}",
                sc.states,
                sc.outcomes.iter().map(fmt_outcome).collect::<Vec<_>>(),
                sc.deadlock,
                sc.leaks,
                sc.race_min,
                sc.race_max,
                sc.race_adjacent
            );
            0
        }
        _ => {
            eprintln!("usage: lv run <Cxx> quick|thorough | replay <file> | worker | gen <Cxx> n | try <json>");
            2
        }
    };
    std::process::exit(code);
}
