//! The program DSL: a pure value describing a small concurrent program over
//! loom primitives. It is the generated input of every check, the replay
//! format (JSON via serde) and the input of both reference models.

use serde::{Deserialize, Serialize};
use std::fmt;

/// Memory ordering.
#[derive(Clone, Copy, Debug, PartialEq, Eq, Hash, PartialOrd, Ord, Serialize, Deserialize)]
pub enum MO {
    Rlx,
    Acq,
    Rel,
    AcqRel,
    Sc,
}

impl MO {
    pub fn std(self) -> std::sync::atomic::Ordering {
        use std::sync::atomic::Ordering::*;
        match self {
            MO::Rlx => Relaxed,
            MO::Acq => Acquire,
            MO::Rel => Release,
            MO::AcqRel => AcqRel,
            MO::Sc => SeqCst,
        }
    }
    pub fn is_rel(self) -> bool {
        matches!(self, MO::Rel | MO::AcqRel | MO::Sc)
    }
    pub fn is_acq(self) -> bool {
        matches!(self, MO::Acq | MO::AcqRel | MO::Sc)
    }
    pub fn short(self) -> &'static str {
        match self {
            MO::Rlx => "rlx",
            MO::Acq => "acq",
            MO::Rel => "rel",
            MO::AcqRel => "ar",
            MO::Sc => "sc",
        }
    }
}

/// One operation of a thread. Every operation that returns something pushes
/// one `i64` on the result vector of its thread.
#[derive(Clone, Debug, PartialEq, Eq, Hash, Serialize, Deserialize)]
pub enum Op {
    // ---- atomics (AtomicUsize, initial value 0) ----
    Load { a: u8, o: MO },
    Store { a: u8, v: u8, o: MO },
    Swap { a: u8, v: u8, o: MO },
    FetchAdd { a: u8, v: u8, o: MO },
    /// compare_exchange; result = old value on success, -(old)-1 on failure
    Cas { a: u8, e: u8, n: u8, s: MO, f: MO },
    Fence { o: MO },
    /// `while a.load(o) != v { yield_now() / spin_loop() }`; no result
    Await { a: u8, v: u8, o: MO, spin: bool },
    /// non-atomic accesses to the atomic itself
    AtomWithMut { a: u8 },
    AtomUnsyncLoad { a: u8 },

    // ---- loom UnsafeCell<usize> ----
    /// `with(|p| *p)`; no result (the value is checked by the race detector only)
    CellRead { c: u8 },
    /// `with_mut(|p| *p += 1)`
    CellWrite { c: u8 },

    // ---- Mutex<usize> ----
    Lock { m: u8 },
    /// result 1 = acquired, 0 = would block
    TryLock { m: u8 },
    Unlock { m: u8 },
    /// needs the guard; increments the protected counter; result = new value
    Incr { m: u8 },
    /// needs the guard; result = protected counter
    Get { m: u8 },

    /// `get_mut()` / `into_inner()` on the mutex (only generated in main after every other thread
    /// was joined): result = protected value. `into_inner` replaces the mutex by a fresh one holding the value.
    MtxGetMut { m: u8 },
    MtxIntoInner { m: u8 },
    RwGetMut { r: u8 },
    RwIntoInner { r: u8 },

    // ---- RwLock<usize> ----
    /// result = protected value at acquisition
    Read { r: u8 },
    /// result = value or -1
    TryRead { r: u8 },
    /// increments the protected value; result = new value
    Write { r: u8 },
    TryWrite { r: u8 },
    UnlockR { r: u8 },
    UnlockW { r: u8 },
    /// needs read or write guard; result = protected value
    RwGet { r: u8 },

    // ---- Condvar (always used with mutex `m`, whose guard must be held) ----
    CvWait { cv: u8, m: u8 },
    /// `while *guard == 0 { guard = cv.wait(guard) }`
    CvWaitWhileZero { cv: u8, m: u8 },
    NotifyOne { cv: u8 },
    NotifyAll { cv: u8 },

    // ---- loom::sync::Notify ----
    NfWait { n: u8 },
    NfNotify { n: u8 },

    // ---- threads ----
    Park,
    Unpark { t: u8 },
    Spawn { t: u8 },
    Join { t: u8 },
    Yield,

    // ---- mpsc channel (one channel per program) ----
    Send { v: u8 },
    /// result = message
    Recv,
    /// result = message or -1 (Empty)
    TryRecv,
    /// drop the receiver (drains the queue)
    DropRx,

    // ---- loom::sync::Arc (arc object `x`, each thread owns handle slots) ----
    /// clone handle slot `h` of arc `x` into a fresh slot owned by thread `to`
    /// (the clone is performed by the executing thread; `to` may be itself)
    ArcClone { x: u8, to: u8 },
    /// drop one handle of arc `x` owned by this thread
    ArcDrop { x: u8 },
    /// result = strong_count
    ArcCount { x: u8 },
    /// result = 1 if get_mut returned Some
    ArcGetMut { x: u8 },
    /// consumes one handle; result = 1 if Ok (payload returned and dropped), 0 if Err (handle kept)
    ArcTryUnwrap { x: u8 },
    /// into_raw + from_raw round trip of one handle (no result)
    ArcRawRoundTrip { x: u8 },
    /// increment_strong_count on a handle, keeps the extra handle (as from_raw)
    ArcIncStrong { x: u8 },
    /// decrement_strong_count: consumes one handle via into_raw
    ArcDecStrong { x: u8 },
    /// mem::forget of one handle (leaks)
    ArcForget { x: u8 },
    /// write the payload's UnsafeCell through the handle
    ArcCellWrite { x: u8 },
    /// read the payload's UnsafeCell through the handle
    ArcCellRead { x: u8 },

    // ---- allocation tracking ----
    TrackNew { k: u8 },
    TrackDrop { k: u8 },
    TrackForget { k: u8 },
    Alloc { k: u8 },
    Dealloc { k: u8 },
    /// like TrackDrop / Dealloc / ArcDrop, but the object is released by the unwinding of a panic
    /// that is caught (`catch_unwind`) inside the model
    TrackDropUnwind { k: u8 },
    DeallocUnwind { k: u8 },
    ArcDropUnwind { x: u8 },

    // ---- thread locals / lazy statics ----
    /// `KEY.with(|v| ..)`: result = value id observed (thread id that initialised it * 16 + writes)
    TlsWith { k: u8 },
    /// nested with of both keys; result like TlsWith of key k
    TlsNested { k: u8 },
    /// bump the thread-local's private counter; result = new value
    TlsBump { k: u8 },
    /// touch lazy static `k`; result = its init generation counter within this iteration
    LazyGet { k: u8 },
    /// read the cell stored in the lazy static
    LazyCellRead { k: u8 },

    // ---- control ----
    /// panic!("injected") if the last result of this thread equals v (or always when v < 0)
    /// data-dependent control flow: the next operation of this thread is skipped unless the last
    /// result of this thread equals v
    SkipNextUnless { v: i8 },
    PanicIf { v: i8 },
    /// arm a guard owned by this thread whose destructor (at thread end, or while a failure
    /// unwinds) stores to atomic `a`: the common "reset a flag on drop" idiom
    DropGuardStore { a: u8 },
    /// `cell.with_mut(|_| panic!("injected failure"))` / the same inside an atomic's `with_mut`
    PanicInCellMut { c: u8 },
    PanicInAtomMut { a: u8 },
    /// misuse loom reports by panicking: an access to the cell nested inside another access of the
    /// same thread. k = 0: `with` inside `with_mut` ("currently writing"), 1: `with_mut` inside
    /// `with` ("currently reading"), 2: `with_mut` inside `with_mut`
    CellNested { c: u8, k: u8 },
    /// from here on the await loops of this thread also bump a private (thread-owned) loom atomic in
    /// every iteration: `loop { polls.fetch_add(1, Relaxed); if flag.load(o) == v { break } yield }`.
    /// No effect on what the program can compute (nobody else touches the counter).
    LoopCounter,
    StopExploring,
    Explore,
    SkipBranch,
}

/// A program. Thread 0 is the model closure ("main"); thread `t > 0` starts
/// when some thread executes `Spawn { t }`.
#[derive(Clone, Debug, PartialEq, Eq, Hash, Serialize, Deserialize, Default)]
pub struct Program {
    pub threads: Vec<Vec<Op>>,
    /// which thread owns the channel receiver (if any Recv/TryRecv/DropRx occurs)
    #[serde(default)]
    pub rx_owner: u8,
    /// initial owners of the first handle of each arc (thread index); arcs are
    /// created by main before anything else and moved into the owner's closure
    #[serde(default)]
    pub arc_owner: Vec<u8>,
}

/// Builder configuration that matters for exploration.
#[derive(Clone, Debug, PartialEq, Eq, Hash, Serialize, Deserialize)]
pub struct Config {
    pub preemption_bound: Option<usize>,
    pub max_branches: usize,
    pub max_threads: usize,
    pub max_permutations: Option<usize>,
    pub checkpoint_interval: usize,
    pub expect_explicit_explore: bool,
}

impl Default for Config {
    fn default() -> Self {
        Config {
            preemption_bound: None,
            max_branches: 2000,
            max_threads: 5,
            max_permutations: None,
            checkpoint_interval: 64,
            expect_explicit_explore: false,
        }
    }
}

impl Program {
    pub fn n_threads(&self) -> usize {
        self.threads.len()
    }
    pub fn ops(&self) -> impl Iterator<Item = (usize, usize, &Op)> {
        self.threads
            .iter()
            .enumerate()
            .flat_map(|(t, ops)| ops.iter().enumerate().map(move |(i, op)| (t, i, op)))
    }
    pub fn n_ops(&self) -> usize {
        self.threads.iter().map(|t| t.len()).sum()
    }
    fn max_index(&self, f: impl Fn(&Op) -> Option<u8>) -> usize {
        self.ops().filter_map(|(_, _, op)| f(op)).map(|x| x as usize + 1).max().unwrap_or(0)
    }
    pub fn n_atomics(&self) -> usize {
        self.max_index(|op| match op {
            Op::Load { a, .. }
            | Op::Store { a, .. }
            | Op::Swap { a, .. }
            | Op::FetchAdd { a, .. }
            | Op::Cas { a, .. }
            | Op::Await { a, .. }
            | Op::AtomWithMut { a }
            | Op::PanicInAtomMut { a }
            | Op::DropGuardStore { a }
            | Op::AtomUnsyncLoad { a } => Some(*a),
            _ => None,
        })
    }
    pub fn n_cells(&self) -> usize {
        self.max_index(|op| match op {
            Op::CellRead { c } | Op::CellWrite { c } | Op::PanicInCellMut { c } | Op::CellNested { c, .. } => Some(*c),
            _ => None,
        })
    }
    pub fn n_mutexes(&self) -> usize {
        self.max_index(|op| match op {
            Op::Lock { m }
            | Op::TryLock { m }
            | Op::Unlock { m }
            | Op::Incr { m }
            | Op::Get { m }
            | Op::MtxGetMut { m }
            | Op::MtxIntoInner { m }
            | Op::CvWait { m, .. }
            | Op::CvWaitWhileZero { m, .. } => Some(*m),
            _ => None,
        })
    }
    pub fn n_rwlocks(&self) -> usize {
        self.max_index(|op| match op {
            Op::Read { r }
            | Op::TryRead { r }
            | Op::Write { r }
            | Op::TryWrite { r }
            | Op::UnlockR { r }
            | Op::UnlockW { r }
            | Op::RwGetMut { r }
            | Op::RwIntoInner { r }
            | Op::RwGet { r } => Some(*r),
            _ => None,
        })
    }
    pub fn n_condvars(&self) -> usize {
        self.max_index(|op| match op {
            Op::CvWait { cv, .. }
            | Op::CvWaitWhileZero { cv, .. }
            | Op::NotifyOne { cv }
            | Op::NotifyAll { cv } => Some(*cv),
            _ => None,
        })
    }
    pub fn n_notifies(&self) -> usize {
        self.max_index(|op| match op {
            Op::NfWait { n } | Op::NfNotify { n } => Some(*n),
            _ => None,
        })
    }
    pub fn n_arcs(&self) -> usize {
        self.arc_owner.len()
    }
    pub fn n_tracks(&self) -> usize {
        self.max_index(|op| match op {
            Op::TrackNew { k }
            | Op::TrackDrop { k }
            | Op::TrackForget { k }
            | Op::Alloc { k }
            | Op::Dealloc { k }
            | Op::TrackDropUnwind { k }
            | Op::DeallocUnwind { k } => Some(*k),
            _ => None,
        })
    }
    pub fn uses_channel(&self) -> bool {
        self.ops().any(|(_, _, op)| matches!(op, Op::Send { .. } | Op::Recv | Op::TryRecv | Op::DropRx))
    }
    pub fn has(&self, f: impl Fn(&Op) -> bool) -> bool {
        self.ops().any(|(_, _, op)| f(op))
    }
    pub fn count(&self, f: impl Fn(&Op) -> bool) -> usize {
        self.ops().filter(|(_, _, op)| f(op)).count()
    }
    /// thread that executes `Spawn{t}` and the index of that op
    pub fn spawn_site(&self, t: usize) -> Option<(usize, usize)> {
        self.ops().find_map(|(u, i, op)| match op {
            Op::Spawn { t: x } if *x as usize == t => Some((u, i)),
            _ => None,
        })
    }
    /// Structural sanity (generators construct only well-formed programs; this
    /// guards replay files and hand-written corpus entries).
    pub fn well_formed(&self) -> Result<(), String> {
        let n = self.threads.len();
        if n == 0 || n > 5 {
            return Err(format!("{} threads", n));
        }
        for t in 1..n {
            let sites = self.count(|op| matches!(op, Op::Spawn { t: x } if *x as usize == t));
            if sites != 1 {
                return Err(format!("thread {} spawned {} times", t, sites));
            }
        }
        for (_, _, op) in self.ops() {
            match op {
                Op::Spawn { t } | Op::Join { t } | Op::Unpark { t } => {
                    if *t as usize >= n {
                        return Err(format!("{:?}: no such thread", op));
                    }
                }
                _ => {}
            }
        }
        Ok(())
    }
    pub fn to_json(&self) -> String {
        serde_json::to_string(self).unwrap()
    }
}

impl fmt::Display for Op {
    fn fmt(&self, f: &mut fmt::Formatter<'_>) -> fmt::Result {
        use Op::*;
        match self {
            Load { a, o } => write!(f, "x{}.load({})", a, o.short()),
            Store { a, v, o } => write!(f, "x{}.store({},{})", a, v, o.short()),
            Swap { a, v, o } => write!(f, "x{}.swap({},{})", a, v, o.short()),
            FetchAdd { a, v, o } => write!(f, "x{}.fetch_add({},{})", a, v, o.short()),
            Cas { a, e, n, s, f: fl } => write!(f, "x{}.cas({}->{},{},{})", a, e, n, s.short(), fl.short()),
            Fence { o } => write!(f, "fence({})", o.short()),
            Await { a, v, o, spin } => {
                write!(f, "await(x{}=={},{},{})", a, v, o.short(), if *spin { "spin" } else { "yield" })
            }
            AtomWithMut { a } => write!(f, "x{}.with_mut", a),
            AtomUnsyncLoad { a } => write!(f, "x{}.unsync_load", a),
            CellRead { c } => write!(f, "c{}.read", c),
            CellWrite { c } => write!(f, "c{}.write", c),
            Lock { m } => write!(f, "m{}.lock", m),
            TryLock { m } => write!(f, "m{}.try_lock", m),
            Unlock { m } => write!(f, "m{}.unlock", m),
            Incr { m } => write!(f, "m{}.incr", m),
            Get { m } => write!(f, "m{}.get", m),
            MtxGetMut { m } => write!(f, "m{}.get_mut", m),
            MtxIntoInner { m } => write!(f, "m{}.into_inner", m),
            RwGetMut { r } => write!(f, "rw{}.get_mut", r),
            RwIntoInner { r } => write!(f, "rw{}.into_inner", r),
            Read { r } => write!(f, "rw{}.read", r),
            TryRead { r } => write!(f, "rw{}.try_read", r),
            Write { r } => write!(f, "rw{}.write", r),
            TryWrite { r } => write!(f, "rw{}.try_write", r),
            UnlockR { r } => write!(f, "rw{}.unlock_r", r),
            UnlockW { r } => write!(f, "rw{}.unlock_w", r),
            RwGet { r } => write!(f, "rw{}.get", r),
            CvWait { cv, m } => write!(f, "cv{}.wait(m{})", cv, m),
            CvWaitWhileZero { cv, m } => write!(f, "cv{}.wait_while_zero(m{})", cv, m),
            NotifyOne { cv } => write!(f, "cv{}.notify_one", cv),
            NotifyAll { cv } => write!(f, "cv{}.notify_all", cv),
            NfWait { n } => write!(f, "nf{}.wait", n),
            NfNotify { n } => write!(f, "nf{}.notify", n),
            Park => write!(f, "park"),
            Unpark { t } => write!(f, "unpark(t{})", t),
            Spawn { t } => write!(f, "spawn(t{})", t),
            Join { t } => write!(f, "join(t{})", t),
            Yield => write!(f, "yield"),
            Send { v } => write!(f, "send({})", v),
            Recv => write!(f, "recv"),
            TryRecv => write!(f, "try_recv"),
            DropRx => write!(f, "drop(rx)"),
            ArcClone { x, to } => write!(f, "arc{}.clone->t{}", x, to),
            ArcDrop { x } => write!(f, "arc{}.drop", x),
            ArcCount { x } => write!(f, "arc{}.strong_count", x),
            ArcGetMut { x } => write!(f, "arc{}.get_mut", x),
            ArcTryUnwrap { x } => write!(f, "arc{}.try_unwrap", x),
            ArcRawRoundTrip { x } => write!(f, "arc{}.into_raw+from_raw", x),
            ArcIncStrong { x } => write!(f, "arc{}.inc_strong", x),
            ArcDecStrong { x } => write!(f, "arc{}.dec_strong", x),
            ArcForget { x } => write!(f, "arc{}.forget", x),
            ArcCellWrite { x } => write!(f, "arc{}.cell_write", x),
            ArcCellRead { x } => write!(f, "arc{}.cell_read", x),
            TrackNew { k } => write!(f, "track{}.new", k),
            TrackDrop { k } => write!(f, "track{}.drop", k),
            TrackForget { k } => write!(f, "track{}.forget", k),
            Alloc { k } => write!(f, "alloc{}", k),
            Dealloc { k } => write!(f, "dealloc{}", k),
            TrackDropUnwind { k } => write!(f, "track{}.drop_unwinding", k),
            DeallocUnwind { k } => write!(f, "dealloc_unwinding{}", k),
            ArcDropUnwind { x } => write!(f, "arc{}.drop_unwinding", x),
            TlsWith { k } => write!(f, "tls{}.with", k),
            TlsNested { k } => write!(f, "tls{}.nested", k),
            TlsBump { k } => write!(f, "tls{}.bump", k),
            LazyGet { k } => write!(f, "lazy{}.get", k),
            LazyCellRead { k } => write!(f, "lazy{}.cell_read", k),
            SkipNextUnless { v } => write!(f, "skip_next_unless({})", v),
            PanicIf { v } => write!(f, "panic_if({})", v),
            DropGuardStore { a } => write!(f, "x{}.store_on_drop", a),
            PanicInCellMut { c } => write!(f, "c{}.with_mut(panic)", c),
            CellNested { c, k } => write!(f, "c{}.nested({})", c, k),
            LoopCounter => write!(f, "count_polls"),
            PanicInAtomMut { a } => write!(f, "x{}.with_mut(panic)", a),
            StopExploring => write!(f, "stop_exploring"),
            Explore => write!(f, "explore"),
            SkipBranch => write!(f, "skip_branch"),
        }
    }
}

impl fmt::Display for Program {
    fn fmt(&self, f: &mut fmt::Formatter<'_>) -> fmt::Result {
        for (t, ops) in self.threads.iter().enumerate() {
            if t > 0 {
                write!(f, " || ")?;
            }
            write!(f, "t{}: ", t)?;
            for (i, op) in ops.iter().enumerate() {
                if i > 0 {
                    write!(f, "; ")?;
                }
                write!(f, "{}", op)?;
            }
        }
        if self.uses_channel() {
            write!(f, " [rx@t{}]", self.rx_owner)?;
        }
        if !self.arc_owner.is_empty() {
            write!(f, " [arc owners {:?}]", self.arc_owner)?;
        }
        Ok(())
    }
}

/// Outcome of one execution: result vector of every thread.
pub type Outcome = Vec<Vec<i64>>;

pub fn fmt_outcome(o: &Outcome) -> String {
    let parts: Vec<String> = o
        .iter()
        .map(|t| format!("[{}]", t.iter().map(|v| v.to_string()).collect::<Vec<_>>().join(",")))
        .collect();
    parts.join(" ")
}
