//! A generated test case (what proptest produces and shrinks, what a replay
//! file contains) and the verdict of evaluating it.

use crate::dsl::*;
use serde::{Deserialize, Serialize};

#[derive(Clone, Debug, Default, PartialEq, Eq, Hash, Serialize, Deserialize)]
pub struct Extra {
    /// preemption bound / generic integer parameter
    #[serde(default)]
    pub n: Option<i64>,
    /// stop point / second integer parameter
    #[serde(default)]
    pub k: Option<i64>,
    /// checkpoint interval / third integer parameter
    #[serde(default)]
    pub c: Option<i64>,
    #[serde(default)]
    pub mode: Option<String>,
    #[serde(default)]
    pub prog2: Option<Program>,
    /// C12: type name and operation sequence
    #[serde(default)]
    pub atom: Option<crate::props::c12::AtomCase>,
    /// C20: future table
    #[serde(default)]
    pub fut: Option<crate::props::c20::FutCase>,
}

#[derive(Clone, Debug, PartialEq, Eq, Hash, Serialize, Deserialize)]
pub struct Case {
    pub prop: String,
    pub family: String,
    #[serde(default)]
    pub prog: Program,
    #[serde(default)]
    pub cfg: Config,
    #[serde(default)]
    pub x: Extra,
}

impl Case {
    pub fn new(prop: &str, family: &str, prog: Program) -> Case {
        Case { prop: prop.to_string(), family: family.to_string(), prog, cfg: Config::default(), x: Extra::default() }
    }
    pub fn describe(&self) -> String {
        let mut s = format!("[{}/{}] {}", self.prop, self.family, self.prog);
        if let Some(n) = self.x.n {
            s.push_str(&format!(" n={}", n));
        }
        if let Some(k) = self.x.k {
            s.push_str(&format!(" k={}", k));
        }
        if let Some(c) = self.x.c {
            s.push_str(&format!(" c={}", c));
        }
        if let Some(m) = &self.x.mode {
            s.push_str(&format!(" mode={}", m));
        }
        if let Some(p2) = &self.x.prog2 {
            s.push_str(&format!(" prog2={}", p2));
        }
        if let Some(a) = &self.x.atom {
            s.push_str(&format!(" {}", a.describe()));
        }
        if let Some(f) = &self.x.fut {
            s.push_str(&format!(" {}", f.describe()));
        }
        s
    }
    /// stable hash of the canonical JSON form (distinctness of cases)
    pub fn hash64(&self) -> u64 {
        use std::hash::{Hash, Hasher};
        let mut h = std::collections::hash_map::DefaultHasher::new();
        self.hash(&mut h);
        h.finish()
    }
}

#[derive(Clone, Debug, PartialEq, Eq, Serialize, Deserialize)]
pub enum Status {
    Pass,
    /// the property is violated; `kind` is a short machine-readable tag
    Fail { kind: String },
    /// not evaluated to a conclusion (iteration cap, reference budget, unsupported)
    Skip { why: String },
}

#[derive(Clone, Debug, Serialize, Deserialize)]
pub struct Verdict {
    pub status: Status,
    /// human-readable explanation (for failures: expected vs observed)
    pub msg: String,
    pub nontrivial: bool,
    pub labels: Vec<String>,
    pub loom_iters: u64,
    pub ref_states: u64,
    /// expected / observed, written to samples and replay files
    #[serde(default)]
    pub detail: serde_json::Value,
}

impl Verdict {
    pub fn pass() -> Verdict {
        Verdict {
            status: Status::Pass,
            msg: String::new(),
            nontrivial: false,
            labels: vec![],
            loom_iters: 0,
            ref_states: 0,
            detail: serde_json::Value::Null,
        }
    }
    pub fn skip(why: &str) -> Verdict {
        let mut v = Verdict::pass();
        v.status = Status::Skip { why: why.to_string() };
        v
    }
    pub fn fail(mut self, kind: &str, msg: String) -> Verdict {
        self.status = Status::Fail { kind: kind.to_string() };
        self.msg = msg;
        self
    }
    pub fn label(&mut self, l: &str) {
        self.labels.push(l.to_string());
    }
    pub fn is_fail(&self) -> bool {
        matches!(self.status, Status::Fail { .. })
    }
}

#[derive(Clone, Copy, Debug, PartialEq, Eq, Serialize, Deserialize)]
pub enum Tier {
    Quick,
    Thorough,
}

impl Tier {
    pub fn name(self) -> &'static str {
        match self {
            Tier::Quick => "quick",
            Tier::Thorough => "thorough",
        }
    }
    pub fn iter_cap(self) -> usize {
        match self {
            Tier::Quick => 60_000,
            Tier::Thorough => 400_000,
        }
    }
}
