//! Runs a DSL program for real under `loom::model::Builder::check`, with the
//! real loom API, and records what every iteration did.
//!
//! The log lives in plain `std` data (invisible to loom). An event is
//! appended immediately after the loom call of an operation returns; loom
//! runs one thread at a time and switches threads only inside loom calls, so
//! log order is the order in which the operations took effect.

use crate::dsl::*;
use loom::sync::atomic::{fence, AtomicUsize};
use std::cell::RefCell;
use std::sync::atomic::{AtomicUsize as StdAtomicUsize, Ordering as StdOrd};
use std::sync::{Arc as StdArc, Mutex as StdMutex};

/// What one iteration did.
#[derive(Clone, Debug, Default, PartialEq, Eq, Hash, serde::Serialize, serde::Deserialize)]
pub struct IterRec {
    /// result vector per thread
    pub results: Outcome,
    /// (thread, op index) in the order operations completed
    pub log: Vec<(u8, u8)>,
    /// thread ran all its operations
    pub done: Vec<bool>,
    /// per arc: how many times the payload was dropped, and by which thread (last)
    pub arc_drops: Vec<(u32, i8)>,
    /// side observations (tls / lazy static bookkeeping), as (tag, a, b)
    pub notes: Vec<(u8, i64, i64)>,
    /// the iteration ended by unwinding (panic), so the record is partial
    pub aborted: bool,
}

/// Result of a whole model run.
#[derive(Clone, Debug, Default, serde::Serialize, serde::Deserialize)]
pub struct RunReport {
    pub iters: usize,
    /// first non-empty line of the panic message, if `check` unwound
    pub panic: Option<String>,
    /// the run was stopped by the iteration cap (`max_permutations`)
    pub capped: bool,
}

pub fn panic_msg(e: Box<dyn std::any::Any + Send>) -> String {
    let s = e
        .downcast_ref::<String>()
        .cloned()
        .or_else(|| e.downcast_ref::<&str>().map(|s| s.to_string()))
        .unwrap_or_else(|| "<non-string panic payload>".to_string());
    s.lines().find(|l| !l.trim().is_empty()).unwrap_or("").trim().to_string()
}

// ---------------------------------------------------------------------------------
// shared, loom-invisible bookkeeping
// ---------------------------------------------------------------------------------

struct Shared {
    prog: Program,
    cur: StdMutex<IterRec>,
    started: StdMutex<bool>,
    iters: StdAtomicUsize,
    sink: StdMutex<Box<dyn FnMut(usize, &IterRec) + Send>>,
}

fn lock<T>(m: &StdMutex<T>) -> std::sync::MutexGuard<'_, T> {
    m.lock().unwrap_or_else(|e| e.into_inner())
}

impl Shared {
    fn fresh_rec(&self) -> IterRec {
        let n = self.prog.n_threads();
        IterRec {
            results: vec![vec![]; n],
            log: vec![],
            done: vec![false; n],
            arc_drops: vec![(0, -1); self.prog.n_arcs()],
            notes: vec![],
            aborted: false,
        }
    }
    fn finish_iteration(&self, aborted: bool) {
        let mut started = lock(&self.started);
        if !*started {
            return;
        }
        *started = false;
        let mut rec = std::mem::take(&mut *lock(&self.cur));
        rec.aborted = aborted;
        let i = self.iters.load(StdOrd::SeqCst);
        (lock(&self.sink))(i, &rec);
    }
    fn begin_iteration(&self) {
        self.finish_iteration(false);
        *lock(&self.cur) = self.fresh_rec();
        *lock(&self.started) = true;
        self.iters.fetch_add(1, StdOrd::SeqCst);
    }
    fn event(&self, t: usize, i: usize, res: Option<i64>) {
        let mut c = lock(&self.cur);
        c.log.push((t as u8, i as u8));
        if let Some(v) = res {
            c.results[t].push(v);
        }
    }
    fn note(&self, tag: u8, a: i64, b: i64) {
        lock(&self.cur).notes.push((tag, a, b));
    }
}

thread_local! {
    /// The run that is executing on this OS thread (loom threads are coroutines
    /// on the OS thread that called `check`).
    static CURRENT: RefCell<Option<StdArc<Shared>>> = RefCell::new(None);
    /// DSL thread index of the loom thread currently executing user code on this OS thread.
    static CUR_THREAD: RefCell<usize> = RefCell::new(0);
}

fn current() -> Option<StdArc<Shared>> {
    CURRENT.with(|c| c.borrow().clone())
}

// ---------------------------------------------------------------------------------
// thread locals and lazy statics used by the Tls*/Lazy* operations
// ---------------------------------------------------------------------------------

pub const NOTE_TLS_INIT: u8 = 1; // (key, thread)
pub const NOTE_TLS_DROP: u8 = 2; // (key, thread)  b = thread | (try_with other key ok? 16 : 0)
pub const NOTE_LAZY_INIT: u8 = 3; // (key, thread)
pub const NOTE_LAZY_DROP: u8 = 4; // (key, 0)
pub const NOTE_LAZY_ADDR: u8 = 5; // (key, addr)
pub const NOTE_THREAD_ID: u8 = 6; // (dsl thread, loom thread id)

pub struct TlsVal {
    key: usize,
    owner: usize,
    /// loom thread id of the initialising thread
    owner_id: i64,
    counter: std::cell::Cell<i64>,
    /// thread-local 1 owns a loom object whose destructor needs the execution
    _owned: Option<loom::sync::Arc<u8>>,
}

/// loom id of the running loom thread, or -1 when no execution is accessible (cleanup after a failure)
fn cur_loom_id() -> i64 {
    if std::thread::panicking() {
        return -1;
    }
    std::panic::catch_unwind(|| thread_id_num(&loom::thread::current())).unwrap_or(-1)
}

impl TlsVal {
    fn new(key: usize) -> TlsVal {
        let owner = CUR_THREAD.with(|t| *t.borrow());
        if let Some(s) = current() {
            s.note(NOTE_TLS_INIT, key as i64, owner as i64);
        }
        TlsVal { key, owner, owner_id: cur_loom_id(), counter: std::cell::Cell::new(0), _owned: if key == 1 { Some(loom::sync::Arc::new(1)) } else { None } }
    }
}

impl Drop for TlsVal {
    fn drop(&mut self) {
        // `try_with` from a destructor at thread exit must report AccessError for a key whose
        // value is destroyed or being destroyed. Only keys this thread initialised are probed: probing
        // a key that was never initialised would create it during destruction (std does the same).
        // the thread running the destructor: CUR_THREAD may be stale here (loom can switch threads
        // between the end of the thread's closure and the destruction of its locals), so compare loom ids
        let id = cur_loom_id();
        let t = if id < 0 || id == self.owner_id { self.owner } else { 15 };
        let sh = current();
        let initialised = |key: usize| -> bool {
            sh.as_ref().map(|s| lock(&s.cur).notes.iter().any(|n| n.0 == NOTE_TLS_INIT && n.1 == key as i64 && n.2 == self.owner as i64)).unwrap_or(false)
        };
        let other = 1 - self.key;
        let probe = |key: usize| -> bool {
            if key == 0 {
                TLS0.try_with(|_| ()).is_ok()
            } else {
                TLS1.try_with(|_| ()).is_ok()
            }
        };
        // (never probe while unwinding or outside a model: a value that outlives its iteration because
        // the iteration failed is destroyed during loom's cleanup, where no execution is accessible)
        let safe_probe = |key: usize| -> bool {
            if std::thread::panicking() {
                return false;
            }
            std::panic::catch_unwind(std::panic::AssertUnwindSafe(|| probe(key))).unwrap_or(false)
        };
        let other_ok = initialised(other) && safe_probe(other);
        let me_ok = initialised(self.key) && safe_probe(self.key);
        if let Some(s) = sh {
            s.note(
                NOTE_TLS_DROP,
                self.key as i64,
                (self.owner as i64) | ((t as i64) << 4) | if other_ok { 256 } else { 0 } | if me_ok { 512 } else { 0 },
            );
        }
    }
}

loom::thread_local! {
    static TLS0: TlsVal = TlsVal::new(0);
    static TLS1: TlsVal = TlsVal::new(1);
}

pub struct LazyVal {
    key: usize,
    cell: loom::cell::UnsafeCell<usize>,
    /// lazy static 1 owns a loom object whose destructor needs the execution
    _owned: Option<loom::sync::Arc<u8>>,
}

impl LazyVal {
    fn new(key: usize) -> LazyVal {
        let t = CUR_THREAD.with(|t| *t.borrow());
        if let Some(s) = current() {
            s.note(NOTE_LAZY_INIT, key as i64, t as i64);
        }
        if key == 2 {
            // a scheduling point inside the initialiser: several threads can be inside it at once
            // (loom documents that such an initialiser may run more than once; one value wins)
            loom::thread::yield_now();
        }
        let cell = loom::cell::UnsafeCell::new(0usize);
        // the initialiser writes the cell: every later reader must be ordered after this
        cell.with_mut(|p| unsafe { *p = 7 + key });
        LazyVal { key, cell, _owned: if key == 1 { Some(loom::sync::Arc::new(1)) } else { None } }
    }
}

impl Drop for LazyVal {
    fn drop(&mut self) {
        if let Some(s) = current() {
            s.note(NOTE_LAZY_DROP, self.key as i64, 0);
        }
    }
}

loom::lazy_static! {
    static ref LAZY0: LazyVal = LazyVal::new(0);
    static ref LAZY1: LazyVal = LazyVal::new(1);
    static ref LAZY2: LazyVal = LazyVal::new(2);
}

// ---------------------------------------------------------------------------------
// loom objects of one iteration
// ---------------------------------------------------------------------------------

struct AtomBox(std::cell::UnsafeCell<AtomicUsize>);
unsafe impl Sync for AtomBox {}
unsafe impl Send for AtomBox {}

/// Mutex / RwLock slots: shared access everywhere, plus exclusive access (`get_mut`, `into_inner`)
/// by main once every other thread was joined
struct MtxBox(std::cell::UnsafeCell<loom::sync::Mutex<usize>>);
unsafe impl Sync for MtxBox {}
unsafe impl Send for MtxBox {}
impl std::ops::Deref for MtxBox {
    type Target = loom::sync::Mutex<usize>;
    fn deref(&self) -> &Self::Target {
        unsafe { &*self.0.get() }
    }
}
struct RwBox(std::cell::UnsafeCell<loom::sync::RwLock<usize>>);
unsafe impl Sync for RwBox {}
unsafe impl Send for RwBox {}
impl std::ops::Deref for RwBox {
    type Target = loom::sync::RwLock<usize>;
    fn deref(&self) -> &Self::Target {
        unsafe { &*self.0.get() }
    }
}

struct CellBox(loom::cell::UnsafeCell<usize>);
unsafe impl Sync for CellBox {}
unsafe impl Send for CellBox {}

pub struct Payload {
    x: usize,
    cell: loom::cell::UnsafeCell<usize>,
    shared: StdArc<Shared>,
}
unsafe impl Sync for Payload {}
unsafe impl Send for Payload {}

impl Drop for Payload {
    fn drop(&mut self) {
        // the final drop reads what every owner wrote: all earlier drops must
        // happen-before this one, otherwise loom reports a causality violation
        // (not while a failure of the iteration unwinds: the cell may be mid-access)
        if !std::thread::panicking() {
            self.cell.with(|p| unsafe { std::ptr::read(p) });
        }
        let t = CUR_THREAD.with(|t| *t.borrow());
        let mut c = lock(&self.shared.cur);
        if let Some(d) = c.arc_drops.get_mut(self.x) {
            d.0 += 1;
            d.1 = t as i8;
        }
    }
}

type LArc = loom::sync::Arc<Payload>;

struct SendPtr(*mut u8);
unsafe impl Send for SendPtr {}

struct Objs {
    atomics: Vec<AtomBox>,
    cells: Vec<CellBox>,
    mutexes: Vec<MtxBox>,
    rwlocks: Vec<RwBox>,
    condvars: Vec<loom::sync::Condvar>,
    notifies: Vec<loom::sync::Notify>,
    tx: Option<StdMutex<loom::sync::mpsc::Sender<usize>>>,
    rx: StdMutex<Option<loom::sync::mpsc::Receiver<usize>>>,
    threads: Vec<StdMutex<Option<loom::thread::Thread>>>,
    joins: Vec<StdMutex<Option<loom::thread::JoinHandle<()>>>>,
    /// arc handles waiting to be picked up by their owner thread
    mailbox: Vec<StdMutex<Vec<(usize, LArc)>>>,
    tracks: Vec<StdMutex<Option<loom::alloc::Track<u8>>>>,
    allocs: Vec<StdMutex<Option<SendPtr>>>,
    /// loom-visible "slot is full" flags (RMW-only locations): who empties a slot is decided by
    /// loom's schedule, not by the invisible table
    track_flags: Vec<AtomBox>,
    alloc_flags: Vec<AtomBox>,
}

const LAYOUT: std::alloc::Layout = unsafe { std::alloc::Layout::from_size_align_unchecked(8, 8) };

struct Th<'a> {
    t: usize,
    sh: &'a StdArc<Shared>,
    o: &'a StdArc<Objs>,
    last: i64,
    guards: Vec<Option<loom::sync::MutexGuard<'a, usize>>>,
    rguards: Vec<Option<loom::sync::RwLockReadGuard<'a, usize>>>,
    wguards: Vec<Option<loom::sync::RwLockWriteGuard<'a, usize>>>,
    rx: Option<loom::sync::mpsc::Receiver<usize>>,
    tx: Option<loom::sync::mpsc::Sender<usize>>,
    arcs: Vec<Vec<LArc>>,
    drop_guards: Vec<StoreOnDrop<'a>>,
    polls: Option<AtomicUsize>,
}

/// "reset a flag on drop": stores to a loom atomic from a destructor, also while a failure unwinds
struct StoreOnDrop<'a>(&'a AtomicUsize);
impl<'a> Drop for StoreOnDrop<'a> {
    fn drop(&mut self) {
        self.0.store(9, StdOrd::SeqCst);
    }
}

fn run_thread(t: usize, sh: StdArc<Shared>, o: StdArc<Objs>, owned: Vec<(usize, LArc)>) {
    CUR_THREAD.with(|c| *c.borrow_mut() = t);
    if t > 0 {
        sh.note(NOTE_THREAD_ID, t as i64, thread_id_num(&loom::thread::current()));
    }
    let nm = o.mutexes.len();
    let nr = o.rwlocks.len();
    let na = sh.prog.n_arcs();
    let mut th = Th {
        t,
        sh: &sh,
        o: &o,
        last: 0,
        guards: (0..nm).map(|_| None).collect(),
        rguards: (0..nr).map(|_| None).collect(),
        wguards: (0..nr).map(|_| None).collect(),
        rx: None,
        tx: None,
        arcs: (0..na).map(|_| vec![]).collect(),
        drop_guards: vec![],
        polls: None,
    };
    if sh.prog.uses_channel() {
        if sh.prog.rx_owner as usize == t {
            th.rx = lock(&o.rx).take();
        }
        th.tx = o.tx.as_ref().map(|m| lock(m).clone());
    }
    // handles cloned for this thread before it was spawned travel inside its closure (`owned`)
    for (x, a) in owned {
        th.arcs[x].push(a);
    }
    for (x, a) in lock(&o.mailbox[t]).drain(..) {
        th.arcs[x].push(a);
    }
    let ops = &sh.prog.threads[t];
    let mut skip_next = false;
    for (i, op) in ops.iter().enumerate() {
        if skip_next {
            skip_next = false;
            continue;
        }
        if let Op::SkipNextUnless { v } = op {
            skip_next = th.last != *v as i64;
            sh.event(t, i, None);
            continue;
        }
        let r = th.exec(op);
        // loom may have run other threads inside the call: restore our index
        CUR_THREAD.with(|c| *c.borrow_mut() = t);
        if let Some(v) = r {
            th.last = v;
        }
        sh.event(t, i, r);
    }
    lock(&sh.cur).done[t] = true;
    // locals (guards, receiver, remaining arc handles) are dropped here, in
    // declaration order of `Th`, still inside the loom thread
    drop(th);
    CUR_THREAD.with(|c| *c.borrow_mut() = t);
}

fn enc_cas(r: Result<usize, usize>) -> i64 {
    match r {
        Ok(v) => v as i64,
        Err(v) => -(v as i64) - 1,
    }
}

impl<'a> Th<'a> {
    fn atom(&self, a: u8) -> &'a AtomicUsize {
        unsafe { &*self.o.atomics[a as usize].0.get() }
    }

    fn exec(&mut self, op: &Op) -> Option<i64> {
        use Op::*;
        let o: &'a Objs = self.o;
        match *op {
            Load { a, o: mo } => Some(self.atom(a).load(mo.std()) as i64),
            Store { a, v, o: mo } => {
                self.atom(a).store(v as usize, mo.std());
                None
            }
            Swap { a, v, o: mo } => Some(self.atom(a).swap(v as usize, mo.std()) as i64),
            FetchAdd { a, v, o: mo } => Some(self.atom(a).fetch_add(v as usize, mo.std()) as i64),
            Cas { a, e, n, s, f } => {
                Some(enc_cas(self.atom(a).compare_exchange(e as usize, n as usize, s.std(), f.std())))
            }
            Fence { o: mo } => {
                fence(mo.std());
                None
            }
            LoopCounter => {
                self.polls = Some(AtomicUsize::new(0));
                None
            }
            Await { a, v, o: mo, spin } => {
                while {
                    if let Some(c) = &self.polls {
                        c.fetch_add(1, StdOrd::Relaxed);
                    }
                    self.atom(a).load(mo.std()) != v as usize
                } {
                    if spin {
                        loom::hint::spin_loop();
                    } else {
                        loom::thread::yield_now();
                    }
                }
                None
            }
            AtomWithMut { a } => {
                let p = unsafe { &mut *o.atomics[a as usize].0.get() };
                p.with_mut(|v| *v = v.wrapping_add(0));
                None
            }
            AtomUnsyncLoad { a } => {
                let _ = unsafe { self.atom(a).unsync_load() };
                None
            }
            CellRead { c } => {
                o.cells[c as usize].0.with(|p| unsafe { std::ptr::read(p) });
                None
            }
            CellWrite { c } => {
                o.cells[c as usize].0.with_mut(|p| unsafe { *p += 1 });
                None
            }
            Lock { m } => {
                self.guards[m as usize] = Some(o.mutexes[m as usize].lock().unwrap());
                None
            }
            TryLock { m } => match o.mutexes[m as usize].try_lock() {
                Ok(g) => {
                    self.guards[m as usize] = Some(g);
                    Some(1)
                }
                Err(_) => Some(0),
            },
            Unlock { m } => {
                self.guards[m as usize] = None;
                None
            }
            Incr { m } => {
                let g = self.guards[m as usize].as_mut().expect("Incr without guard");
                **g += 1;
                Some(**g as i64)
            }
            Get { m } => Some(**self.guards[m as usize].as_ref().expect("Get without guard") as i64),
            MtxGetMut { m } => {
                let mx = unsafe { &mut *o.mutexes[m as usize].0.get() };
                Some(*mx.get_mut().unwrap() as i64)
            }
            MtxIntoInner { m } => {
                let slot = unsafe { &mut *o.mutexes[m as usize].0.get() };
                let old = std::mem::replace(slot, loom::sync::Mutex::new(0));
                let v = old.into_inner().unwrap();
                *slot = loom::sync::Mutex::new(v);
                Some(v as i64)
            }
            RwGetMut { r } => {
                let rw = unsafe { &mut *o.rwlocks[r as usize].0.get() };
                Some(*rw.get_mut().unwrap() as i64)
            }
            RwIntoInner { r } => {
                let slot = unsafe { &mut *o.rwlocks[r as usize].0.get() };
                let old = std::mem::replace(slot, loom::sync::RwLock::new(0));
                let v = old.into_inner().unwrap();
                *slot = loom::sync::RwLock::new(v);
                Some(v as i64)
            }
            Read { r } => {
                let g = o.rwlocks[r as usize].read().unwrap();
                let v = *g as i64;
                self.rguards[r as usize] = Some(g);
                Some(v)
            }
            TryRead { r } => match o.rwlocks[r as usize].try_read() {
                Ok(g) => {
                    let v = *g as i64;
                    self.rguards[r as usize] = Some(g);
                    Some(v)
                }
                Err(_) => Some(-1),
            },
            Write { r } => {
                let mut g = o.rwlocks[r as usize].write().unwrap();
                *g += 1;
                let v = *g as i64;
                self.wguards[r as usize] = Some(g);
                Some(v)
            }
            TryWrite { r } => match o.rwlocks[r as usize].try_write() {
                Ok(mut g) => {
                    *g += 1;
                    let v = *g as i64;
                    self.wguards[r as usize] = Some(g);
                    Some(v)
                }
                Err(_) => Some(-1),
            },
            UnlockR { r } => {
                self.rguards[r as usize] = None;
                None
            }
            UnlockW { r } => {
                self.wguards[r as usize] = None;
                None
            }
            RwGet { r } => {
                if let Some(g) = self.wguards[r as usize].as_ref() {
                    Some(**g as i64)
                } else {
                    Some(**self.rguards[r as usize].as_ref().expect("RwGet without guard") as i64)
                }
            }
            CvWait { cv, m } => {
                let g = self.guards[m as usize].take().expect("CvWait without guard");
                self.guards[m as usize] = Some(o.condvars[cv as usize].wait(g).unwrap());
                None
            }
            CvWaitWhileZero { cv, m } => {
                let mut g = self.guards[m as usize].take().expect("CvWait without guard");
                while *g == 0 {
                    g = o.condvars[cv as usize].wait(g).unwrap();
                }
                self.guards[m as usize] = Some(g);
                None
            }
            NotifyOne { cv } => {
                o.condvars[cv as usize].notify_one();
                None
            }
            NotifyAll { cv } => {
                o.condvars[cv as usize].notify_all();
                None
            }
            NfWait { n } => {
                o.notifies[n as usize].wait();
                None
            }
            NfNotify { n } => {
                o.notifies[n as usize].notify();
                None
            }
            Park => {
                loom::thread::park();
                None
            }
            Unpark { t } => {
                let h = lock(&o.threads[t as usize]).clone();
                h.expect("Unpark of a thread whose handle is not available").unpark();
                None
            }
            Spawn { t } => {
                let (sh2, o2) = (self.sh.clone(), self.o.clone());
                let tt = t as usize;
                // the closure itself owns the loom Arc handles meant for the new thread
                let owned: Vec<(usize, LArc)> = lock(&o.mailbox[tt]).drain(..).collect();
                let h = loom::thread::spawn(move || run_thread(tt, sh2, o2, owned));
                *lock(&o.threads[tt]) = Some(h.thread().clone());
                *lock(&o.joins[tt]) = Some(h);
                None
            }
            Join { t } => {
                // (a second join of the same thread is a no-op: the handle is gone)
                let h = lock(&o.joins[t as usize]).take();
                if let Some(h) = h {
                    h.join().unwrap();
                }
                None
            }
            Yield => {
                loom::thread::yield_now();
                None
            }
            Send { v } => {
                // std refuses a send once the receiver is gone; loom still counts the message
                // (and reports it as leaked at the end of the execution)
                let _ = self.tx.as_ref().expect("Send without sender").send(v as usize);
                None
            }
            Recv => Some(self.rx.as_ref().expect("Recv without receiver").recv().unwrap() as i64),
            TryRecv => {
                Some(self.rx.as_ref().expect("TryRecv without receiver").try_recv().map(|v| v as i64).unwrap_or(-1))
            }
            DropRx => {
                self.rx = None;
                None
            }
            ArcClone { x, to } => {
                let c = self.arcs[x as usize].last().expect("ArcClone without handle").clone();
                if to as usize == self.t {
                    self.arcs[x as usize].push(c);
                } else {
                    lock(&o.mailbox[to as usize]).push((x as usize, c));
                }
                None
            }
            ArcDrop { x } => {
                let h = self.arcs[x as usize].pop().expect("ArcDrop without handle");
                drop(h);
                None
            }
            ArcCount { x } => {
                Some(LArc::strong_count(self.arcs[x as usize].last().expect("ArcCount without handle")) as i64)
            }
            ArcGetMut { x } => {
                let h = self.arcs[x as usize].last_mut().expect("ArcGetMut without handle");
                Some(LArc::get_mut(h).is_some() as i64)
            }
            ArcTryUnwrap { x } => {
                let h = self.arcs[x as usize].pop().expect("ArcTryUnwrap without handle");
                match LArc::try_unwrap(h) {
                    Ok(p) => {
                        drop(p);
                        Some(1)
                    }
                    Err(h) => {
                        self.arcs[x as usize].push(h);
                        Some(0)
                    }
                }
            }
            ArcRawRoundTrip { x } => {
                let h = self.arcs[x as usize].pop().expect("ArcRawRoundTrip without handle");
                let p = LArc::into_raw(h);
                self.arcs[x as usize].push(unsafe { LArc::from_raw(p) });
                None
            }
            ArcIncStrong { x } => {
                let h = self.arcs[x as usize].last().expect("ArcIncStrong without handle");
                let p = LArc::as_ptr(h);
                unsafe {
                    LArc::increment_strong_count(p);
                    let extra = LArc::from_raw(p);
                    self.arcs[x as usize].push(extra);
                }
                None
            }
            ArcDecStrong { x } => {
                let h = self.arcs[x as usize].pop().expect("ArcDecStrong without handle");
                let p = LArc::into_raw(h);
                unsafe { LArc::decrement_strong_count(p) };
                None
            }
            ArcForget { x } => {
                let h = self.arcs[x as usize].pop().expect("ArcForget without handle");
                std::mem::forget(h);
                None
            }
            ArcCellWrite { x } => {
                let h = self.arcs[x as usize].last().expect("ArcCellWrite without handle");
                h.cell.with_mut(|p| unsafe { *p += 1 });
                None
            }
            ArcCellRead { x } => {
                let h = self.arcs[x as usize].last().expect("ArcCellRead without handle");
                h.cell.with(|p| unsafe { std::ptr::read(p) });
                None
            }
            TrackNew { k } => {
                let t = loom::alloc::Track::new(k);
                *lock(&o.tracks[k as usize]) = Some(t);
                unsafe { &*o.track_flags[k as usize].0.get() }.swap(1, StdOrd::SeqCst);
                None
            }
            TrackDrop { k } | TrackForget { k } => {
                let full = unsafe { &*o.track_flags[k as usize].0.get() }.swap(0, StdOrd::SeqCst) == 1;
                let t = if full { lock(&o.tracks[k as usize]).take() } else { None };
                let r = t.is_some() as i64;
                if matches!(op, TrackForget { .. }) {
                    std::mem::forget(t);
                } else {
                    drop(t);
                }
                Some(r)
            }
            Alloc { k } => {
                let p = unsafe { loom::alloc::alloc(LAYOUT) };
                *lock(&o.allocs[k as usize]) = Some(SendPtr(p));
                unsafe { &*o.alloc_flags[k as usize].0.get() }.swap(1, StdOrd::SeqCst);
                None
            }
            Dealloc { k } => {
                let full = unsafe { &*o.alloc_flags[k as usize].0.get() }.swap(0, StdOrd::SeqCst) == 1;
                let p = if full { lock(&o.allocs[k as usize]).take() } else { None };
                match p {
                    Some(p) => {
                        unsafe { loom::alloc::dealloc(p.0, LAYOUT) };
                        Some(1)
                    }
                    None => Some(0),
                }
            }
            TrackDropUnwind { k } => {
                let full = unsafe { &*o.track_flags[k as usize].0.get() }.swap(0, StdOrd::SeqCst) == 1;
                let t = if full { lock(&o.tracks[k as usize]).take() } else { None };
                let r = t.is_some() as i64;
                if let Some(t) = t {
                    let _ = std::panic::catch_unwind(std::panic::AssertUnwindSafe(move || {
                        let _released_by_unwinding = t;
                        panic!("harness: caught panic that releases a tracked value");
                    }));
                }
                Some(r)
            }
            DeallocUnwind { k } => {
                let full = unsafe { &*o.alloc_flags[k as usize].0.get() }.swap(0, StdOrd::SeqCst) == 1;
                let p = if full { lock(&o.allocs[k as usize]).take() } else { None };
                match p {
                    Some(p) => {
                        struct Free(SendPtr);
                        impl Drop for Free {
                            fn drop(&mut self) {
                                unsafe { loom::alloc::dealloc(self.0 .0, LAYOUT) };
                            }
                        }
                        let _ = std::panic::catch_unwind(std::panic::AssertUnwindSafe(move || {
                            let _freed_by_unwinding = Free(p);
                            panic!("harness: caught panic that frees a tracked block");
                        }));
                        Some(1)
                    }
                    None => Some(0),
                }
            }
            ArcDropUnwind { x } => {
                let h = self.arcs[x as usize].pop().expect("ArcDropUnwind without handle");
                let _ = std::panic::catch_unwind(std::panic::AssertUnwindSafe(move || {
                    let _dropped_by_unwinding = h;
                    panic!("harness: caught panic that drops an Arc handle");
                }));
                None
            }
            TlsWith { k } => {
                let f = |v: &TlsVal| (v.owner as i64) * 16 + v.counter.get();
                Some(if k == 0 { TLS0.with(f) } else { TLS1.with(f) })
            }
            TlsNested { k } => {
                let r = TLS0.with(|a| TLS1.with(|b| if k == 0 { (a.owner as i64) * 16 + a.counter.get() } else { (b.owner as i64) * 16 + b.counter.get() }));
                Some(r)
            }
            TlsBump { k } => {
                let f = |v: &TlsVal| {
                    v.counter.set(v.counter.get() + 1);
                    (v.owner as i64) * 16 + v.counter.get()
                };
                Some(if k == 0 { TLS0.with(f) } else { TLS1.with(f) })
            }
            LazyGet { k } => {
                let v: &LazyVal = match k {
                    0 => &LAZY0,
                    1 => &LAZY1,
                    _ => &LAZY2,
                };
                self.sh.note(NOTE_LAZY_ADDR, k as i64, v as *const LazyVal as usize as i64);
                Some(v.key as i64)
            }
            LazyCellRead { k } => {
                let v: &LazyVal = match k {
                    0 => &LAZY0,
                    1 => &LAZY1,
                    _ => &LAZY2,
                };
                Some(v.cell.with(|p| unsafe { std::ptr::read(p) }) as i64)
            }
            DropGuardStore { a } => {
                let g = StoreOnDrop(self.atom(a));
                self.drop_guards.push(g);
                None
            }
            PanicInCellMut { c } => {
                let t = self.t;
                o.cells[c as usize].0.with_mut(|_| panic!("injected failure t{} (inside UnsafeCell::with_mut)", t));
                None
            }
            CellNested { c, k } => {
                let cell = &o.cells[c as usize].0;
                match k {
                    0 => cell.with_mut(|_| cell.with(|_| ())),
                    1 => cell.with(|_| cell.with_mut(|_| ())),
                    _ => cell.with_mut(|_| cell.with_mut(|_| ())),
                }
                None
            }
            PanicInAtomMut { a } => {
                let t = self.t;
                let p = unsafe { &mut *o.atomics[a as usize].0.get() };
                p.with_mut(|_| panic!("injected failure t{} (inside Atomic::with_mut)", t));
                None
            }
            SkipNextUnless { .. } => None,
            PanicIf { v } => {
                if v < 0 || self.last == v as i64 {
                    panic!("injected failure t{}", self.t);
                }
                None
            }
            StopExploring => {
                loom::stop_exploring();
                None
            }
            Explore => {
                loom::explore();
                None
            }
            SkipBranch => {
                loom::skip_branch();
                None
            }
        }
    }
}

impl Drop for Objs {
    fn drop(&mut self) {
        // raw blocks that were never handed back to loom: free the real memory
        for a in &self.allocs {
            if let Some(p) = lock(a).take() {
                unsafe { std::alloc::dealloc(p.0, LAYOUT) };
            }
        }
    }
}

fn build_objs(sh: &StdArc<Shared>) -> Objs {
    let p = &sh.prog;
    let n = p.n_threads();
    let (tx, rx) = if p.uses_channel() {
        let (tx, rx) = loom::sync::mpsc::channel::<usize>();
        (Some(StdMutex::new(tx)), Some(rx))
    } else {
        (None, None)
    };
    let o = Objs {
        atomics: (0..p.n_atomics()).map(|_| AtomBox(std::cell::UnsafeCell::new(AtomicUsize::new(0)))).collect(),
        cells: (0..p.n_cells()).map(|_| CellBox(loom::cell::UnsafeCell::new(0))).collect(),
        mutexes: (0..p.n_mutexes()).map(|_| MtxBox(std::cell::UnsafeCell::new(loom::sync::Mutex::new(0)))).collect(),
        rwlocks: (0..p.n_rwlocks()).map(|_| RwBox(std::cell::UnsafeCell::new(loom::sync::RwLock::new(0)))).collect(),
        condvars: (0..p.n_condvars()).map(|_| loom::sync::Condvar::new()).collect(),
        notifies: (0..p.n_notifies()).map(|_| loom::sync::Notify::new()).collect(),
        tx,
        rx: StdMutex::new(rx),
        threads: (0..n).map(|_| StdMutex::new(None)).collect(),
        joins: (0..n).map(|_| StdMutex::new(None)).collect(),
        mailbox: (0..n).map(|_| StdMutex::new(vec![])).collect(),
        tracks: (0..p.n_tracks()).map(|_| StdMutex::new(None)).collect(),
        allocs: (0..p.n_tracks()).map(|_| StdMutex::new(None)).collect(),
        track_flags: (0..p.n_tracks()).map(|_| AtomBox(std::cell::UnsafeCell::new(AtomicUsize::new(0)))).collect(),
        alloc_flags: (0..p.n_tracks()).map(|_| AtomBox(std::cell::UnsafeCell::new(AtomicUsize::new(0)))).collect(),
    };
    for (x, owner) in p.arc_owner.iter().enumerate() {
        let a = LArc::new(Payload { x, cell: loom::cell::UnsafeCell::new(0), shared: sh.clone() });
        lock(&o.mailbox[*owner as usize]).push((x, a));
    }
    o
}

fn builder(cfg: &Config) -> loom::model::Builder {
    let mut b = loom::model::Builder::new();
    b.max_threads = cfg.max_threads;
    b.max_branches = cfg.max_branches;
    b.max_permutations = cfg.max_permutations;
    b.max_duration = None;
    b.preemption_bound = cfg.preemption_bound;
    b.checkpoint_file = None;
    b.checkpoint_interval = cfg.checkpoint_interval.max(1);
    b.expect_explicit_explore = cfg.expect_explicit_explore;
    b.location = false;
    b.log = false;
    b
}

/// Extra knobs for the multi-run drivers (checkpointing, hook).
#[derive(Default)]
pub struct RunOpts {
    pub checkpoint_file: Option<std::path::PathBuf>,
    pub max_duration: Option<std::time::Duration>,
    /// called with the decision path at the end of every iteration / when the next is prepared
    pub hook: Option<Box<dyn FnMut(loom::verif::Phase, usize, &[loom::verif::Branch])>>,
    /// panic (from the model closure, in main) when the iteration counter reaches this value
    pub crash_at_iteration: Option<usize>,
}

/// Run `prog` under loom. `sink` receives every iteration record (index from 1).
pub fn run_with(
    prog: &Program,
    cfg: &Config,
    opts: RunOpts,
    sink: impl FnMut(usize, &IterRec) + Send + 'static,
) -> RunReport {
    let sh = StdArc::new(Shared {
        prog: prog.clone(),
        cur: StdMutex::new(IterRec::default()),
        started: StdMutex::new(false),
        iters: StdAtomicUsize::new(0),
        sink: StdMutex::new(Box::new(sink)),
    });
    let mut b = builder(cfg);
    b.checkpoint_file = opts.checkpoint_file.clone();
    b.max_duration = opts.max_duration;
    let crash_at = opts.crash_at_iteration;
    let prev = CURRENT.with(|c| c.borrow_mut().replace(sh.clone()));
    let had_hook = opts.hook.is_some();
    if let Some(h) = opts.hook {
        loom::verif::set_iteration_hook(Some(h));
    }
    let sh2 = sh.clone();
    let r = std::panic::catch_unwind(std::panic::AssertUnwindSafe(|| {
        b.check(move || {
            sh2.begin_iteration();
            if let Some(k) = crash_at {
                if sh2.iters.load(StdOrd::SeqCst) == k {
                    panic!("injected crash at iteration {}", k);
                }
            }
            sh2.note(NOTE_THREAD_ID, 0, thread_id_num(&loom::thread::current()));
            let o = StdArc::new(build_objs(&sh2));
            *lock(&o.threads[0]) = Some(loom::thread::current());
            run_thread(0, sh2.clone(), o, vec![]);
        })
    }));
    if had_hook {
        loom::verif::set_iteration_hook(None);
    }
    CURRENT.with(|c| *c.borrow_mut() = prev);
    let panic = r.err().map(panic_msg);
    sh.finish_iteration(panic.is_some());
    let iters = sh.iters.load(StdOrd::SeqCst);
    let capped = panic.is_none()
        && cfg.max_permutations.map(|cap| {
            // loom stops at the first multiple of checkpoint_interval >= cap
            let c = cfg.checkpoint_interval.max(1);
            let stop = ((cap + c - 1) / c) * c;
            iters + 1 >= stop.max(c)
        }).unwrap_or(false);
    RunReport { iters, panic, capped }
}

pub fn run(prog: &Program, cfg: &Config, sink: impl FnMut(usize, &IterRec) + Send + 'static) -> RunReport {
    run_with(prog, cfg, RunOpts::default(), sink)
}

fn thread_id_num(t: &loom::thread::Thread) -> i64 {
    // ThreadId's Debug output is `ThreadId(n)`
    let s = format!("{:?}", t.id());
    s.trim_start_matches("ThreadId(").trim_end_matches(')').parse().unwrap_or(-1)
}

/// Convenience: run and collect the set of distinct outcomes of complete
/// iterations (with counts) plus all records if `keep_all`.
pub struct Collected {
    pub report: RunReport,
    pub outcomes: std::collections::BTreeMap<Outcome, usize>,
    pub records: Vec<IterRec>,
    /// the last record if the run unwound (partial iteration)
    pub partial: Option<IterRec>,
}

pub fn collect(prog: &Program, cfg: &Config, keep_all: bool) -> Collected {
    collect_with(prog, cfg, RunOpts::default(), keep_all)
}

pub fn collect_with(prog: &Program, cfg: &Config, opts: RunOpts, keep_all: bool) -> Collected {
    let acc: StdArc<StdMutex<(std::collections::BTreeMap<Outcome, usize>, Vec<IterRec>, Option<IterRec>)>> =
        StdArc::new(StdMutex::new((Default::default(), vec![], None)));
    let acc2 = acc.clone();
    let report = run_with(prog, cfg, opts, move |_, rec| {
        let mut a = lock(&acc2);
        if rec.aborted {
            a.2 = Some(rec.clone());
        } else {
            *a.0.entry(rec.results.clone()).or_insert(0) += 1;
        }
        if keep_all {
            a.1.push(rec.clone());
        }
    });
    let mut a = lock(&acc);
    Collected {
        report,
        outcomes: std::mem::take(&mut a.0),
        records: std::mem::take(&mut a.1),
        partial: a.2.take(),
    }
}
