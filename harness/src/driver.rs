//! Driver: corpus + known findings + fixed cases + generated cases on parallel
//! lanes (one proptest runner and one worker child process per lane),
//! shrinking, replay files, evidence.

use crate::case::*;
use crate::known::{self, KnownFile};
use crate::props;
use proptest::test_runner::{Config as PtConfig, RngAlgorithm, TestCaseError, TestError, TestRng, TestRunner};
use std::collections::{BTreeMap, HashSet};
use std::io::{BufRead, BufReader, Write};
use std::path::{Path, PathBuf};
use std::process::{Child, ChildStdin, ChildStdout, Command, Stdio};
use std::sync::atomic::{AtomicBool, AtomicUsize, Ordering};
use std::sync::{Arc, Mutex};
use std::time::Instant;

// ---------------------------------------------------------------------------------
// worker protocol
// ---------------------------------------------------------------------------------

#[derive(serde::Serialize, serde::Deserialize)]
struct Request {
    case: Case,
    tier: Tier,
}

pub fn worker_main() {
    // watchdog: exit(99) if a case runs for too long
    let deadline: Arc<Mutex<Option<Instant>>> = Arc::new(Mutex::new(None));
    {
        let d = deadline.clone();
        std::thread::spawn(move || loop {
            std::thread::sleep(std::time::Duration::from_millis(250));
            if let Some(t) = *d.lock().unwrap() {
                if Instant::now() > t {
                    eprintln!("worker watchdog expired");
                    std::process::exit(99);
                }
            }
        });
    }
    let limit: u64 = std::env::var("LV_CASE_TIMEOUT_S").ok().and_then(|s| s.parse().ok()).unwrap_or(120);
    let stdin = std::io::stdin();
    let stdout = std::io::stdout();
    for line in stdin.lock().lines() {
        let line = match line {
            Ok(l) => l,
            Err(_) => break,
        };
        if line.trim().is_empty() {
            continue;
        }
        let req: Request = match serde_json::from_str(&line) {
            Ok(r) => r,
            Err(e) => {
                eprintln!("bad request: {}", e);
                std::process::exit(98);
            }
        };
        *deadline.lock().unwrap() = Some(Instant::now() + std::time::Duration::from_secs(limit));
        let v = match std::panic::catch_unwind(std::panic::AssertUnwindSafe(|| props::eval(&req.case, req.tier))) {
            Ok(v) => v,
            Err(e) => Verdict::skip(&format!("HARNESS-PANIC: {}", crate::interp::panic_msg(e))),
        };
        *deadline.lock().unwrap() = None;
        let mut out = stdout.lock();
        let _ = writeln!(out, "{}", serde_json::to_string(&v).unwrap());
        let _ = out.flush();
    }
}

struct Worker {
    child: Child,
    stdin: ChildStdin,
    stdout: BufReader<ChildStdout>,
}

enum WorkerOut {
    Verdict(Verdict),
    Timeout,
    Died(String),
}

impl Worker {
    fn spawn() -> Worker {
        let exe = std::env::current_exe().expect("current_exe");
        let mut child = Command::new(exe)
            .arg("worker")
            .stdin(Stdio::piped())
            .stdout(Stdio::piped())
            .stderr(Stdio::null())
            .env("RUST_BACKTRACE", "0")
            .spawn()
            .expect("spawn worker");
        let stdin = child.stdin.take().unwrap();
        let stdout = BufReader::new(child.stdout.take().unwrap());
        Worker { child, stdin, stdout }
    }
    fn eval(&mut self, case: &Case, tier: Tier) -> WorkerOut {
        let req = serde_json::to_string(&Request { case: case.clone(), tier }).unwrap();
        if writeln!(self.stdin, "{}", req).is_err() || self.stdin.flush().is_err() {
            return self.died();
        }
        let mut line = String::new();
        match self.stdout.read_line(&mut line) {
            Ok(n) if n > 0 => match serde_json::from_str::<Verdict>(&line) {
                Ok(v) => WorkerOut::Verdict(v),
                Err(e) => WorkerOut::Died(format!("unparsable worker reply: {}", e)),
            },
            _ => self.died(),
        }
    }
    fn died(&mut self) -> WorkerOut {
        let status = self.child.wait();
        let out = match status {
            Ok(st) => {
                if st.code() == Some(99) {
                    WorkerOut::Timeout
                } else {
                    use std::os::unix::process::ExitStatusExt;
                    WorkerOut::Died(match st.signal() {
                        Some(sig) => format!("signal {}", sig),
                        None => format!("exit code {:?}", st.code()),
                    })
                }
            }
            Err(e) => WorkerOut::Died(format!("wait failed: {}", e)),
        };
        *self = Worker::spawn();
        out
    }
}

impl Drop for Worker {
    fn drop(&mut self) {
        let _ = self.child.kill();
        let _ = self.child.wait();
    }
}

/// number of watchdog expiries in this run (a model run that hangs is inconclusive, not a violation;
/// after a few of them the whole check stops with exit 2 instead of waiting for every case)
static WATCHDOGS: AtomicUsize = AtomicUsize::new(0);

fn watchdog_limit(tier: Tier) -> usize {
    match tier {
        Tier::Quick => 3,
        Tier::Thorough => 40,
    }
}

/// Evaluate through a worker; process death is turned into a verdict.
fn eval_via(worker: &mut Worker, case: &Case, tier: Tier) -> Verdict {
    match worker.eval(case, tier) {
        WorkerOut::Verdict(v) => v,
        WorkerOut::Timeout => {
            WATCHDOGS.fetch_add(1, Ordering::SeqCst);
            Verdict::skip("watchdog")
        }
        WorkerOut::Died(how) => {
            if how == "signal 9" {
                Verdict::skip("worker killed (SIGKILL)")
            } else if how.starts_with("signal") {
                Verdict::pass().fail(
                    "process_abort",
                    format!("the process running the model died ({}) instead of unwinding with a panic", how),
                )
            } else {
                Verdict::skip(&format!("worker died: {}", how))
            }
        }
    }
}

// ---------------------------------------------------------------------------------
// statistics / evidence
// ---------------------------------------------------------------------------------

#[derive(Default)]
struct Stats {
    evaluations: u64,
    nontrivial: HashSet<u64>,
    distinct: HashSet<u64>,
    labels: BTreeMap<String, u64>,
    families: BTreeMap<String, u64>,
    skipped: BTreeMap<String, u64>,
    excluded_known: BTreeMap<String, u64>,
    loom_iters: u64,
    ref_states: u64,
    samples: Vec<serde_json::Value>,
    harness_problems: Vec<String>,
}

impl Stats {
    fn record(&mut self, case: &Case, v: &Verdict) {
        self.evaluations += 1;
        let h = case.hash64();
        self.distinct.insert(h);
        *self.families.entry(case.family.clone()).or_insert(0) += 1;
        self.loom_iters += v.loom_iters;
        self.ref_states += v.ref_states;
        match &v.status {
            Status::Skip { why } => {
                let key = why.split(':').next().unwrap_or(why).to_string();
                *self.skipped.entry(key).or_insert(0) += 1;
                if why.starts_with("HARNESS-PANIC") || why.starts_with("ORACLE-BUG") {
                    self.harness_problems.push(format!("{} on {}", why, case.describe()));
                }
                return;
            }
            _ => {}
        }
        for l in &v.labels {
            *self.labels.entry(l.clone()).or_insert(0) += 1;
        }
        if v.nontrivial {
            if self.nontrivial.insert(h) && self.samples.len() < 4 {
                self.samples.push(serde_json::json!({
                    "case": case.describe(),
                    "labels": v.labels,
                    "loom_iterations": v.loom_iters,
                    "detail": v.detail,
                }));
            }
        }
    }
    fn merge(&mut self, o: Stats) {
        self.evaluations += o.evaluations;
        self.nontrivial.extend(o.nontrivial);
        self.distinct.extend(o.distinct);
        for (k, v) in o.labels {
            *self.labels.entry(k).or_insert(0) += v;
        }
        for (k, v) in o.families {
            *self.families.entry(k).or_insert(0) += v;
        }
        for (k, v) in o.skipped {
            *self.skipped.entry(k).or_insert(0) += v;
        }
        for (k, v) in o.excluded_known {
            *self.excluded_known.entry(k).or_insert(0) += v;
        }
        self.loom_iters += o.loom_iters;
        self.ref_states += o.ref_states;
        for s in o.samples.into_iter().take(2) {
            if self.samples.len() < 7 {
                self.samples.push(s);
            }
        }
        self.harness_problems.extend(o.harness_problems);
    }
}

struct Violation {
    case: Case,
    verdict: Verdict,
    origin: String,
}

fn splitmix(mut x: u64) -> u64 {
    x = x.wrapping_add(0x9E3779B97F4A7C15);
    let mut z = x;
    z = (z ^ (z >> 30)).wrapping_mul(0xBF58476D1CE4E5B9);
    z = (z ^ (z >> 27)).wrapping_mul(0x94D049BB133111EB);
    z ^ (z >> 31)
}

fn lane_rng(seed: u64, lane: usize, prop: &str) -> TestRng {
    let mut h = seed ^ 0x5151_5151;
    for b in prop.bytes() {
        h = splitmix(h ^ b as u64);
    }
    h = splitmix(h ^ (lane as u64) << 32);
    let mut bytes = [0u8; 32];
    for i in 0..4 {
        h = splitmix(h);
        bytes[i * 8..i * 8 + 8].copy_from_slice(&h.to_le_bytes());
    }
    TestRng::from_seed(RngAlgorithm::ChaCha, &bytes)
}

fn write_replay(root: &Path, prop: &str, viol: &Violation, seed: u64, tier: Tier) -> PathBuf {
    let dir = root.join("replays").join(prop);
    let _ = std::fs::create_dir_all(&dir);
    let path = dir.join(format!("{:016x}.json", viol.case.hash64()));
    let body = serde_json::json!({
        "property": prop,
        "seed": seed,
        "tier": tier.name(),
        "origin": viol.origin,
        "kind": match &viol.verdict.status { Status::Fail { kind } => kind.clone(), _ => String::new() },
        "message": viol.verdict.msg,
        "program": viol.case.describe(),
        "detail": viol.verdict.detail,
        "case": viol.case,
    });
    let _ = std::fs::write(&path, serde_json::to_string_pretty(&body).unwrap());
    path
}

pub fn load_case_file(path: &Path) -> Result<Case, String> {
    let s = std::fs::read_to_string(path).map_err(|e| format!("{}: {}", path.display(), e))?;
    let v: serde_json::Value = serde_json::from_str(&s).map_err(|e| format!("{}: {}", path.display(), e))?;
    let cv = if v.get("case").is_some() { v["case"].clone() } else { v };
    serde_json::from_value(cv).map_err(|e| format!("{}: {}", path.display(), e))
}

fn list_json(dir: &Path) -> Vec<PathBuf> {
    let mut v: Vec<PathBuf> = std::fs::read_dir(dir)
        .map(|rd| rd.filter_map(|e| e.ok()).map(|e| e.path()).filter(|p| p.extension().map(|x| x == "json").unwrap_or(false)).collect())
        .unwrap_or_default();
    v.sort();
    v
}

/// Decide whether a failing verdict is a violation or attributed to a known finding.
fn classify(kf: &KnownFile, case: &Case, v: &Verdict) -> Result<(), Option<String>> {
    match &v.status {
        Status::Fail { kind } => match known::attribute(kf, case, kind, &v.labels) {
            Some(f) => Err(Some(f.id.clone())),
            None => Err(None),
        },
        _ => Ok(()),
    }
}

pub fn run_property(root: &Path, prop: &str, tier: Tier, seed: u64) -> i32 {
    let t0 = Instant::now();
    let info = props::info(prop);
    let kf = Arc::new(known::load(root));
    let lanes = std::env::var("LV_LANES").ok().and_then(|s| s.parse().ok()).unwrap_or(16usize).max(1);
    let total_cases: usize = std::env::var("LV_CASES")
        .ok()
        .and_then(|s| s.parse().ok())
        .unwrap_or(if tier == Tier::Quick { info.cases_quick } else { info.cases_thorough });
    let mut stats = Stats::default();
    let mut violations: Vec<Violation> = vec![];
    let mut known_lines: Vec<String> = vec![];
    let mut notes: Vec<String> = vec![];
    let mut w0 = Worker::spawn();

    // 1. known findings: replay reproducers
    // (known findings are replayed by every check whose property they are listed for: the reproducer is
    // evaluated by the check of its own property; fixed findings only by their own check)
    for f in kf.findings.iter().filter(|f| f.reproducer.prop == prop || (f.status == "known" && f.properties.iter().any(|p| p == prop))) {
        let v = eval_via(&mut w0, &f.reproducer, tier);
        let failing_as_listed = matches!(&v.status, Status::Fail { kind } if f.kinds.iter().any(|k| k == kind));
        if f.status == "known" {
            if failing_as_listed {
                known_lines.push(format!("KNOWN-FINDING: property={} {}: {} [{}]", prop, f.id, f.what, f.reproducer.describe()));
            } else if v.is_fail() {
                if f.reproducer.prop == prop {
                    violations.push(Violation { case: f.reproducer.clone(), verdict: v, origin: format!("known-finding reproducer {} fails differently", f.id) });
                }
            } else {
                notes.push(format!("known finding {} no longer reproduces ({:?})", f.id, v.status));
            }
        } else {
            // fixed: must pass, suppresses nothing
            if v.is_fail() {
                violations.push(Violation { case: f.reproducer.clone(), verdict: v, origin: format!("regression of fixed finding {}", f.id) });
            } else {
                stats.record(&f.reproducer, &v);
            }
        }
    }
    // 2. corpus
    let mut corpus_n = 0;
    for path in list_json(&root.join("corpus").join(prop)) {
        match load_case_file(&path) {
            Ok(case) => {
                corpus_n += 1;
                let v = eval_via(&mut w0, &case, tier);
                match classify(&kf, &case, &v) {
                    Ok(()) => stats.record(&case, &v),
                    Err(Some(fid)) => *stats.excluded_known.entry(fid).or_insert(0) += 1,
                    Err(None) => violations.push(Violation { case, verdict: v, origin: format!("corpus {}", path.display()) }),
                }
            }
            Err(e) => {
                eprintln!("corpus: {}", e);
                return 2;
            }
        }
    }
    drop(w0);
    // keep at most one of the replayed reproducers as a sample: the samples should show generated cases
    stats.samples.truncate(1);

    // 3. fixed + generated cases on parallel lanes
    let fixed: Arc<Vec<Case>> = Arc::new(props::fixed(prop, tier));
    let fixed_next = Arc::new(AtomicUsize::new(0));
    let stop = Arc::new(AtomicBool::new(!violations.is_empty()));
    let per_lane = (total_cases + lanes - 1) / lanes;
    let mut handles = vec![];
    for lane in 0..lanes {
        let (kf, fixed, fixed_next, stop) = (kf.clone(), fixed.clone(), fixed_next.clone(), stop.clone());
        let prop = prop.to_string();
        let draws_n = info.draws;
        handles.push(std::thread::spawn(move || {
            let mut st = Stats::default();
            let mut viols: Vec<Violation> = vec![];
            let mut worker = Worker::spawn();
            // fixed cases first
            loop {
                if stop.load(Ordering::SeqCst) {
                    break;
                }
                let i = fixed_next.fetch_add(1, Ordering::SeqCst);
                if i >= fixed.len() {
                    break;
                }
                let case = &fixed[i];
                let v = eval_via(&mut worker, case, tier);
                match classify(&kf, case, &v) {
                    Ok(()) => st.record(case, &v),
                    Err(Some(fid)) => *st.excluded_known.entry(fid).or_insert(0) += 1,
                    Err(None) => {
                        stop.store(true, Ordering::SeqCst);
                        viols.push(Violation { case: case.clone(), verdict: v, origin: "fixed case".into() });
                    }
                }
            }
            // generated
            let cfg = PtConfig {
                cases: per_lane as u32,
                failure_persistence: None,
                max_shrink_iters: if tier == Tier::Quick { 250 } else { 600 },
                max_global_rejects: 0,
                ..PtConfig::default()
            };
            let mut runner = TestRunner::new_with_rng(cfg, lane_rng(seed, lane, &prop));
            let strategy = proptest::collection::vec(proptest::num::u16::ANY, 0..=draws_n);
            let counting = std::cell::Cell::new(true);
            let st_cell = std::cell::RefCell::new(&mut st);
            let worker_cell = std::cell::RefCell::new(&mut worker);
            let result = runner.run(&strategy, |draws| {
                if WATCHDOGS.load(Ordering::SeqCst) >= watchdog_limit(tier) {
                    stop.store(true, Ordering::SeqCst);
                }
                if counting.get() && stop.load(Ordering::SeqCst) {
                    return Ok(());
                }
                let case = props::build(&prop, &draws, tier);
                let v = eval_via(&mut worker_cell.borrow_mut(), &case, tier);
                match classify(&kf, &case, &v) {
                    Ok(()) => {
                        if counting.get() {
                            st_cell.borrow_mut().record(&case, &v);
                        }
                        Ok(())
                    }
                    Err(Some(fid)) => {
                        if counting.get() {
                            let mut s = st_cell.borrow_mut();
                            s.evaluations += 1;
                            *s.excluded_known.entry(fid).or_insert(0) += 1;
                        }
                        Ok(())
                    }
                    Err(None) => {
                        counting.set(false);
                        Err(TestCaseError::fail(v.msg.clone()))
                    }
                }
            });
            if let Err(TestError::Fail(_, draws)) = result {
                stop.store(true, Ordering::SeqCst);
                let case = props::build(&prop, &draws, tier);
                let v = eval_via(&mut worker_cell.borrow_mut(), &case, tier);
                if classify(&kf, &case, &v) == Err(None) {
                    viols.push(Violation { case, verdict: v, origin: format!("generated, lane {}", lane) });
                } else {
                    // flaky: failed during the run but not on re-evaluation of the shrunk case
                    st_cell.borrow_mut().harness_problems.push(format!("non-reproducible failure on {}", case.describe()));
                }
            } else if let Err(TestError::Abort(r)) = result {
                st_cell.borrow_mut().harness_problems.push(format!("proptest aborted: {}", r));
            }
            drop(st_cell);
            drop(worker_cell);
            (st, viols)
        }));
    }
    for h in handles {
        match h.join() {
            Ok((st, v)) => {
                stats.merge(st);
                violations.extend(v);
            }
            Err(_) => {
                eprintln!("lane panicked");
                return 2;
            }
        }
    }

    // dedupe violations
    let mut seen = HashSet::new();
    violations.retain(|v| seen.insert(v.case.hash64()));

    // output
    for l in &known_lines {
        println!("{}", l);
    }
    let mut replay_paths = vec![];
    for v in &violations {
        let p = write_replay(root, prop, v, seed, tier);
        println!("VIOLATION property={} replay={}", prop, p.display());
        println!("  {} :: {}", v.case.describe(), v.verdict.msg);
        replay_paths.push(p.display().to_string());
    }
    let wall = t0.elapsed().as_secs_f64();
    if WATCHDOGS.load(Ordering::SeqCst) >= watchdog_limit(tier) {
        stats.harness_problems.push(format!("the watchdog expired {} times (a model run did not finish within the per-case limit): stopped early, inconclusive", WATCHDOGS.load(Ordering::SeqCst)));
    }
    let inconclusive = !stats.harness_problems.is_empty();
    let evidence = serde_json::json!({
        "property_id": prop,
        "tier": tier.name(),
        "seed": seed,
        "level": "exploration",
        "coverage": {
            "evaluations": stats.evaluations,
            "distinct_nontrivial": stats.nontrivial.len(),
            "distinct_cases": stats.distinct.len(),
            "rule": info.rule,
            "samples": stats.samples,
            "label_histogram": stats.labels,
            "families": stats.families,
            "loom_iterations": stats.loom_iters,
            "reference_states": stats.ref_states,
            "skipped": stats.skipped,
            "excluded_known": stats.excluded_known,
            "known_findings_reported": known_lines.len(),
            "corpus_replayed": corpus_n,
            "fixed_cases": fixed.len(),
            "generated_cases_requested": per_lane * lanes,
            "lanes": lanes,
            "notes": notes,
            "harness_problems": stats.harness_problems,
            "replays": replay_paths,
            "exhaustive": false,
        },
        "assumptions": info.assumptions,
        "wall_s": wall,
        "violations": violations.len(),
    });
    let evdir = root.join("evidence");
    let _ = std::fs::create_dir_all(&evdir);
    if let Err(e) = std::fs::write(evdir.join(format!("{}.json", prop)), serde_json::to_string_pretty(&evidence).unwrap()) {
        eprintln!("cannot write evidence: {}", e);
        return 2;
    }
    println!(
        "{} {} seed={} : {} cases ({} distinct non-trivial), {} loom iterations, {} skipped, {} attributed to known findings, {} violations, {:.1}s",
        prop,
        tier.name(),
        seed,
        stats.evaluations,
        stats.nontrivial.len(),
        stats.loom_iters,
        stats.skipped.values().sum::<u64>(),
        stats.excluded_known.values().sum::<u64>(),
        violations.len(),
        wall
    );
    if !violations.is_empty() {
        return 1;
    }
    if inconclusive {
        eprintln!("INCONCLUSIVE: harness problems: {:?}", &stats.harness_problems[..stats.harness_problems.len().min(3)]);
        return 2;
    }
    0
}

pub fn replay(root: &Path, path: &Path, tier: Tier) -> i32 {
    let case = match load_case_file(path) {
        Ok(c) => c,
        Err(e) => {
            eprintln!("{}", e);
            return 2;
        }
    };
    let kf = known::load(root);
    let mut w = Worker::spawn();
    let v = eval_via(&mut w, &case, tier);
    println!("{}", case.describe());
    println!("status: {:?}", v.status);
    if !v.msg.is_empty() {
        println!("{}", v.msg);
    }
    if !v.detail.is_null() {
        println!("{}", serde_json::to_string_pretty(&v.detail).unwrap());
    }
    match classify(&kf, &case, &v) {
        Ok(()) => 0,
        Err(Some(fid)) => {
            println!("KNOWN-FINDING: property={} {}", case.prop, fid);
            0
        }
        Err(None) => {
            println!("VIOLATION property={} replay={}", case.prop, path.display());
            1
        }
    }
}
