//! R-AX: brute-force axiomatic RC11 reference for programs over atomics,
//! fences, awaits, non-atomic accesses, spawn and join.
//!
//! Enumerates every candidate execution (reads-from choice for every read,
//! total modification order per location), computes values along po ∪ rf
//! (required acyclic: "no load buffering") and keeps the RC11-consistent ones.
//! Written independently of loom: no vector clocks, no partial orders kept
//! incrementally, just relations as bit matrices and the axioms.

use crate::dsl::*;
use std::collections::{BTreeMap, BTreeSet};

#[derive(Clone, Copy, PartialEq, Eq, Debug)]
enum K {
    W,
    R,
    U,
    C,
    F,
    /// non-atomic access: (namespace/location id, is_write, kind) — takes part in po/hb only
    N,
    Sp,
    Jn,
    Nop,
}

#[derive(Clone, Copy, PartialEq, Eq, Debug)]
enum NaKind {
    CellRead,
    CellWrite,
    WithMut,
    UnsyncLoad,
}

struct Ev<'a> {
    th: i32, // -1 for init
    kind: K,
    loc: Option<u8>,
    op: Option<&'a Op>,
    na: Option<(NaKind, u8)>,
}

type Rel = Vec<u32>;

fn closure(rel: &Rel) -> Rel {
    let n = rel.len();
    let mut r = rel.clone();
    for k in 0..n {
        let rk = r[k];
        let bit = 1u32 << k;
        for i in 0..n {
            if r[i] & bit != 0 {
                r[i] |= rk;
            }
        }
    }
    r
}

fn compose(a: &Rel, b: &Rel) -> Rel {
    let n = a.len();
    let mut out = vec![0u32; n];
    for i in 0..n {
        let mut m = a[i];
        let mut acc = 0u32;
        while m != 0 {
            let j = m.trailing_zeros() as usize;
            m &= m - 1;
            acc |= b[j];
        }
        out[i] = acc;
    }
    out
}

fn union2(a: &Rel, b: &Rel) -> Rel {
    a.iter().zip(b.iter()).map(|(x, y)| x | y).collect()
}

fn irreflexive(r: &Rel) -> bool {
    r.iter().enumerate().all(|(i, m)| m & (1 << i) == 0)
}

fn acyclic(r: &Rel) -> bool {
    irreflexive(&closure(r))
}

pub struct AxResult {
    pub outcomes: BTreeSet<Outcome>,
    /// some consistent execution has two conflicting non-atomic accesses unordered by hb
    pub racy: bool,
    /// number of consistent candidate executions
    pub execs: usize,
    /// one witness (rf / mo description) per outcome
    pub witness: BTreeMap<Outcome, String>,
    /// the enumeration was cut off (too many candidates)
    pub truncated: bool,
}

/// `weak_sc`: SC accesses are only acquire/release (loom's documented behaviour);
/// `strong_rs`: release sequences continue through later same-thread writes (RC11/C++11 form).
pub fn enumerate(prog: &Program, weak_sc: bool, strong_rs: bool, budget: u64) -> AxResult {
    enumerate_opt(prog, weak_sc, strong_rs, false, budget)
}

/// `op_fences`: additionally require that the order RC11 imposes on SeqCst fences and accesses
/// (psc) is compatible with some execution order, i.e. `po ∪ rf ∪ psc` is acyclic. loom executes
/// operations in one global order and orders SeqCst fences (global clock) and SeqCst accesses
/// (a SeqCst load never reads a SeqCst store older than the newest executed one) by that order,
/// so it can only produce such executions (recorded finding F12).
pub fn enumerate_opt(prog: &Program, weak_sc: bool, strong_rs: bool, op_fences: bool, budget: u64) -> AxResult {
    enumerate_loose(prog, weak_sc, strong_rs, op_fences, 0, budget)
}

/// `loose`: bit mask of locations whose modification order is left unconstrained (no coherence, no
/// RMW atomicity on them; they still transfer synchronisation through reads-from). Used to bound
/// what the recorded modification-order defects (F7a/F7b) can explain: an outcome that is forbidden
/// even with those locations loose is a different violation.
pub fn enumerate_loose(prog: &Program, weak_sc: bool, strong_rs: bool, op_fences: bool, loose: u32, budget: u64) -> AxResult {
    let mut evs: Vec<Ev> = vec![];
    let nlocs = prog.n_atomics();
    for l in 0..nlocs {
        evs.push(Ev { th: -1, kind: K::W, loc: Some(l as u8), op: None, na: None });
    }
    let nth = prog.n_threads();
    let mut per_thread: Vec<Vec<usize>> = vec![vec![]; nth];
    for (t, ops) in prog.threads.iter().enumerate() {
        for op in ops {
            let (kind, loc, na) = match op {
                Op::Store { a, .. } => (K::W, Some(*a), None),
                Op::Load { a, .. } | Op::Await { a, .. } => (K::R, Some(*a), None),
                Op::Swap { a, .. } | Op::FetchAdd { a, .. } => (K::U, Some(*a), None),
                Op::Cas { a, .. } => (K::C, Some(*a), None),
                Op::Fence { .. } => (K::F, None, None),
                Op::CellRead { c } => (K::N, None, Some((NaKind::CellRead, *c))),
                Op::CellWrite { c } => (K::N, None, Some((NaKind::CellWrite, *c))),
                Op::AtomWithMut { a } => (K::N, None, Some((NaKind::WithMut, *a))),
                Op::AtomUnsyncLoad { a } => (K::N, None, Some((NaKind::UnsyncLoad, *a))),
                Op::Spawn { .. } => (K::Sp, None, None),
                Op::Join { .. } => (K::Jn, None, None),
                Op::Yield | Op::LoopCounter | Op::StopExploring | Op::Explore => (K::Nop, None, None),
                other => panic!("R-AX: unsupported op {:?}", other),
            };
            per_thread[t].push(evs.len());
            evs.push(Ev { th: t as i32, kind, loc, op: Some(op), na });
        }
    }
    let n = evs.len();
    assert!(n <= 32, "R-AX: too many events");
    // sb: init -> everything, program order inside a thread
    let mut sb: Rel = vec![0; n];
    let non_init: u32 = (0..n).filter(|&i| evs[i].th >= 0).fold(0, |m, i| m | (1 << i));
    for l in 0..nlocs {
        sb[l] = non_init;
    }
    for ids in &per_thread {
        for a in 0..ids.len() {
            for b in a + 1..ids.len() {
                sb[ids[a]] |= 1 << ids[b];
            }
        }
    }
    // additional synchronises-with: spawn -> every event of the child, every event of the child -> join
    let mut asw: Rel = vec![0; n];
    for i in 0..n {
        match evs[i].op {
            Some(Op::Spawn { t }) => {
                for &b in &per_thread[*t as usize] {
                    asw[i] |= 1 << b;
                }
            }
            Some(Op::Join { t }) => {
                for &a in &per_thread[*t as usize] {
                    asw[a] |= 1 << i;
                }
            }
            _ => {}
        }
    }
    let readers: Vec<usize> = (0..n).filter(|&i| matches!(evs[i].kind, K::R | K::U | K::C)).collect();
    let writers_of = |l: u8| -> Vec<usize> {
        (0..n).filter(|&i| evs[i].loc == Some(l) && matches!(evs[i].kind, K::W | K::U | K::C)).collect()
    };
    let rf_choices: Vec<Vec<usize>> =
        readers.iter().map(|&r| writers_of(evs[r].loc.unwrap()).into_iter().filter(|&w| w != r).collect()).collect();

    let mut res = AxResult {
        outcomes: BTreeSet::new(),
        racy: false,
        execs: 0,
        witness: BTreeMap::new(),
        truncated: false,
    };
    let mut work: u64 = 0;
    let base: Rel = union2(&sb, &asw);

    // odometer over rf choices
    let mut idx = vec![0usize; readers.len()];
    if rf_choices.iter().any(|c| c.is_empty()) {
        return res;
    }
    'rf: loop {
        // ---- one rf choice ----
        'this: {
            let mut rf_src = vec![usize::MAX; n];
            let mut rfrel: Rel = vec![0; n];
            for (k, &r) in readers.iter().enumerate() {
                let w = rf_choices[k][idx[k]];
                rf_src[r] = w;
                rfrel[w] |= 1 << r;
            }
            work += 1;
            if !acyclic(&union2(&base, &rfrel)) {
                break 'this;
            }
            // evaluate values
            let mut wval: Vec<Option<i64>> = vec![None; n];
            let mut rval: Vec<Option<i64>> = vec![None; n];
            let mut kind: Vec<K> = evs.iter().map(|e| e.kind).collect();
            let mut ord: Vec<MO> = vec![MO::Rlx; n];
            let mut done = vec![false; n];
            let mut pending: Vec<usize> = (0..n).collect();
            let mut ok = true;
            loop {
                let mut progress = false;
                let mut rest = vec![];
                for &i in &pending {
                    let e = &evs[i];
                    if e.th < 0 {
                        wval[i] = Some(0);
                        done[i] = true;
                        progress = true;
                        continue;
                    }
                    match e.op.unwrap() {
                        Op::Fence { o } => {
                            ord[i] = *o;
                            done[i] = true;
                            progress = true;
                            continue;
                        }
                        Op::Store { v, o, .. } => {
                            wval[i] = Some(*v as i64);
                            ord[i] = *o;
                            done[i] = true;
                            progress = true;
                            continue;
                        }
                        _ => {}
                    }
                    if !matches!(e.kind, K::R | K::U | K::C) {
                        done[i] = true;
                        progress = true;
                        continue;
                    }
                    let src = rf_src[i];
                    if !done[src] {
                        rest.push(i);
                        continue;
                    }
                    let v = match wval[src] {
                        Some(v) => v,
                        None => {
                            ok = false; // reading from a failed CAS
                            break;
                        }
                    };
                    rval[i] = Some(v);
                    match e.op.unwrap() {
                        Op::Load { o, .. } => ord[i] = *o,
                        Op::Await { v: want, o, .. } => {
                            ord[i] = *o;
                            if v != *want as i64 {
                                ok = false;
                                break;
                            }
                        }
                        Op::Swap { v: nv, o, .. } => {
                            ord[i] = *o;
                            wval[i] = Some(*nv as i64);
                        }
                        Op::FetchAdd { v: k, o, .. } => {
                            ord[i] = *o;
                            wval[i] = Some(v + *k as i64);
                        }
                        Op::Cas { e: exp, n: nv, s, f, .. } => {
                            if v == *exp as i64 {
                                kind[i] = K::U;
                                ord[i] = *s;
                                wval[i] = Some(*nv as i64);
                            } else {
                                kind[i] = K::R;
                                ord[i] = *f;
                            }
                        }
                        _ => unreachable!(),
                    }
                    done[i] = true;
                    progress = true;
                }
                if !ok || rest.is_empty() || !progress {
                    ok = ok && rest.is_empty();
                    break;
                }
                pending = rest;
            }
            if !ok {
                break 'this;
            }
            let is_write = |i: usize| matches!(kind[i], K::W | K::U);
            let is_rel = |i: usize| matches!(kind[i], K::W | K::U | K::F) && ord[i].is_rel();
            let is_acq = |i: usize| matches!(kind[i], K::R | K::U | K::F) && ord[i].is_acq();
            let is_sc_access = |i: usize| matches!(kind[i], K::R | K::W | K::U) && ord[i] == MO::Sc && !weak_sc;
            let is_sc_fence = |i: usize| kind[i] == K::F && ord[i] == MO::Sc;

            // modification orders: permutations of the non-init writes per location
            let mut per_loc: Vec<Vec<usize>> = vec![];
            for l in 0..nlocs {
                per_loc.push((0..n).filter(|&i| evs[i].loc == Some(l as u8) && evs[i].th >= 0 && is_write(i)).collect());
            }
            let mut perms: Vec<Vec<Vec<usize>>> = vec![];
            for ws in &per_loc {
                perms.push(permutations(ws));
            }
            let mut pidx = vec![0usize; nlocs];
            'mo: loop {
                'thismo: {
                    work += 1;
                    if work > budget {
                        res.truncated = true;
                        return res;
                    }
                    let mut mo: Rel = vec![0; n];
                    let mut pos = vec![0usize; n];
                    for l in 0..nlocs {
                        let seq: Vec<usize> = std::iter::once(l).chain(perms[l][pidx[l]].iter().cloned()).collect();
                        for a in 0..seq.len() {
                            pos[seq[a]] = a;
                            if loose & (1 << l) != 0 {
                                continue;
                            }
                            for b in a + 1..seq.len() {
                                mo[seq[a]] |= 1 << seq[b];
                            }
                        }
                    }
                    // atomicity
                    for i in 0..n {
                        if kind[i] == K::U && evs[i].th >= 0 && loose & (1 << evs[i].loc.unwrap_or(0)) == 0 {
                            let w = rf_src[i];
                            if pos[w] + 1 != pos[i] {
                                break 'thismo;
                            }
                        }
                    }
                    let mut rb: Rel = vec![0; n];
                    for &r in &readers {
                        rb[r] |= mo[rf_src[r]] & !(1 << r);
                    }
                    // release sequences and sw
                    let mut sw: Rel = vec![0; n];
                    for w in 0..n {
                        if !is_write(w) || evs[w].th < 0 {
                            continue;
                        }
                        let mut srcs: Vec<usize> = vec![];
                        if is_rel(w) {
                            srcs.push(w);
                        }
                        for f in 0..n {
                            if kind[f] == K::F && ord[f].is_rel() && evs[f].th == evs[w].th && sb[f] & (1 << w) != 0 {
                                srcs.push(f);
                            }
                        }
                        if srcs.is_empty() {
                            continue;
                        }
                        let mut rs: u32 = 1 << w;
                        if strong_rs {
                            for j in 0..n {
                                if sb[w] & (1 << j) != 0 && is_write(j) && evs[j].loc == evs[w].loc && evs[j].th == evs[w].th {
                                    rs |= 1 << j;
                                }
                            }
                        }
                        loop {
                            let mut changed = false;
                            for &r in &readers {
                                if kind[r] == K::U && rs & (1 << rf_src[r]) != 0 && rs & (1 << r) == 0 {
                                    rs |= 1 << r;
                                    changed = true;
                                }
                            }
                            if !changed {
                                break;
                            }
                        }
                        for &r in &readers {
                            if rs & (1 << rf_src[r]) == 0 {
                                continue;
                            }
                            let mut tgts: Vec<usize> = vec![];
                            if is_acq(r) {
                                tgts.push(r);
                            }
                            for f in 0..n {
                                if kind[f] == K::F && ord[f].is_acq() && evs[f].th == evs[r].th && sb[r] & (1 << f) != 0 {
                                    tgts.push(f);
                                }
                            }
                            for &a in &srcs {
                                for &b in &tgts {
                                    if evs[a].th != evs[b].th {
                                        sw[a] |= 1 << b;
                                    }
                                }
                            }
                        }
                    }
                    let hb = closure(&union2(&base, &sw));
                    if !irreflexive(&hb) {
                        break 'thismo;
                    }
                    let eco = closure(&union2(&union2(&rfrel, &mo), &rb));
                    if !irreflexive(&compose(&hb, &eco)) {
                        break 'thismo;
                    }
                    // SC axiom (RC11 psc)
                    let any_sc = (0..n).any(|i| is_sc_access(i) || is_sc_fence(i));
                    if any_sc {
                        let locof = |i: usize| evs[i].loc;
                        let mut sb_nl: Rel = vec![0; n];
                        let mut hb_loc: Rel = vec![0; n];
                        for a in 0..n {
                            for b in 0..n {
                                if sb[a] & (1 << b) != 0 && (locof(a).is_none() || locof(b).is_none() || locof(a) != locof(b)) {
                                    sb_nl[a] |= 1 << b;
                                }
                                if hb[a] & (1 << b) != 0 && locof(a).is_some() && locof(a) == locof(b) {
                                    hb_loc[a] |= 1 << b;
                                }
                            }
                        }
                        let mid = compose(&compose(&sb_nl, &hb), &sb_nl);
                        let scb: Rel = (0..n).map(|i| sb[i] | mid[i] | hb_loc[i] | mo[i] | rb[i]).collect();
                        let fsc_mask: u32 = (0..n).filter(|&i| is_sc_fence(i)).fold(0, |m, i| m | (1 << i));
                        let esc_mask: u32 = (0..n).filter(|&i| is_sc_access(i)).fold(0, |m, i| m | (1 << i));
                        let hbq: Rel = (0..n).map(|i| hb[i] | (1 << i)).collect();
                        let mut left: Rel = vec![0; n];
                        let mut right: Rel = vec![0; n];
                        for i in 0..n {
                            if is_sc_access(i) {
                                left[i] |= 1 << i;
                            }
                            if is_sc_fence(i) {
                                left[i] |= hbq[i];
                            }
                            if esc_mask & (1 << i) != 0 {
                                right[i] |= 1 << i;
                            }
                            right[i] |= hbq[i] & fsc_mask;
                        }
                        let psc_base = compose(&compose(&left, &scb), &right);
                        let heh = compose(&compose(&hb, &eco), &hb);
                        let psc: Rel = (0..n)
                            .map(|i| psc_base[i] | if is_sc_fence(i) { (hb[i] | heh[i]) & fsc_mask } else { 0 })
                            .collect();
                        if !acyclic(&psc) {
                            break 'thismo;
                        }
                        if op_fences {
                            // What loom's single execution order imposes on SeqCst events:
                            //  * SeqCst fences are ordered by execution order and each one inherits what the
                            //    earlier ones knew: psc restricted to fences must be compatible with po ∪ rf;
                            //  * a SeqCst load that reads a SeqCst store never reads one that is older (in mo)
                            //    than a SeqCst store executed before it: the load must execute before every
                            //    mo-later SeqCst store.
                            let psc_f: Rel =
                                (0..n).map(|i| if is_sc_fence(i) { (hb[i] | heh[i]) & fsc_mask & !(1 << i) } else { 0 }).collect();
                            let mut sc_rb: Rel = vec![0; n];
                            for &r in &readers {
                                if kind[r] == K::R && is_sc_access(r) && evs[rf_src[r]].th >= 0 && is_sc_access(rf_src[r]) {
                                    let later_sc: u32 = (0..n).filter(|&w| is_write(w) && is_sc_access(w)).fold(0, |m, w| m | (1 << w));
                                    sc_rb[r] = rb[r] & later_sc;
                                }
                            }
                            let exec_order = union2(&union2(&union2(&base, &rfrel), &psc_f), &sc_rb);
                            if !acyclic(&exec_order) {
                                break 'thismo;
                            }
                        }
                    }
                    if op_fences {
                        // loom lets every read-modify-write - also a compare_exchange that fails - read the
                        // newest executed store only: a failing CAS that reads w must execute before every
                        // store that is mo-later than w (recorded finding F7c)
                        let mut cas_rb: Rel = vec![0; n];
                        let mut any = false;
                        for i in 0..n {
                            if evs[i].th >= 0 && kind[i] == K::R && matches!(evs[i].op, Some(Op::Cas { .. })) {
                                cas_rb[i] = rb[i];
                                any = true;
                            }
                        }
                        if any && !acyclic(&union2(&union2(&base, &rfrel), &cas_rb)) {
                            break 'thismo;
                        }
                    }
                    // consistent execution
                    res.execs += 1;
                    // races on non-atomic accesses
                    for a in 0..n {
                        if evs[a].th < 0 {
                            continue;
                        }
                        for b in a + 1..n {
                            if evs[b].th < 0 || evs[a].th == evs[b].th {
                                continue;
                            }
                            if conflict(&evs[a], &evs[b], &kind, a, b) && hb[a] & (1 << b) == 0 && hb[b] & (1 << a) == 0 {
                                res.racy = true;
                            }
                        }
                    }
                    // outcome
                    let mut out: Outcome = vec![vec![]; nth];
                    for (t, ids) in per_thread.iter().enumerate() {
                        for &i in ids {
                            match evs[i].op.unwrap() {
                                Op::Load { .. } | Op::Swap { .. } | Op::FetchAdd { .. } => out[t].push(rval[i].unwrap()),
                                Op::Cas { .. } => {
                                    let v = rval[i].unwrap();
                                    out[t].push(if kind[i] == K::U { v } else { -v - 1 })
                                }
                                _ => {}
                            }
                        }
                    }
                    if !res.witness.contains_key(&out) {
                        let mut w = String::new();
                        for &r in &readers {
                            let src = rf_src[r];
                            w.push_str(&format!("{}<-{} ", ev_name(&evs, r), ev_name(&evs, src)));
                        }
                        w.push_str("| mo:");
                        for l in 0..nlocs {
                            w.push_str(&format!(
                                " x{}:[{}]",
                                l,
                                perms[l][pidx[l]].iter().map(|&i| ev_name(&evs, i)).collect::<Vec<_>>().join("<")
                            ));
                        }
                        res.witness.insert(out.clone(), w);
                    }
                    res.outcomes.insert(out);
                }
                // next mo
                let mut k = 0;
                loop {
                    if k == nlocs {
                        break 'mo;
                    }
                    pidx[k] += 1;
                    if pidx[k] < perms[k].len() {
                        break;
                    }
                    pidx[k] = 0;
                    k += 1;
                }
            }
        }
        // next rf
        let mut k = 0;
        loop {
            if k == readers.len() {
                break 'rf;
            }
            idx[k] += 1;
            if idx[k] < rf_choices[k].len() {
                break;
            }
            idx[k] = 0;
            k += 1;
        }
        if work > budget {
            res.truncated = true;
            return res;
        }
    }
    res
}

fn ev_name(evs: &[Ev], i: usize) -> String {
    let e = &evs[i];
    if e.th < 0 {
        return format!("init(x{})", e.loc.unwrap());
    }
    format!("t{}:{}", e.th, e.op.unwrap())
}

/// Do two accesses conflict for the purpose of data-race detection?
fn conflict(a: &Ev, b: &Ev, kind: &[K], ia: usize, ib: usize) -> bool {
    // cell vs cell
    if let (Some((ka, ca)), Some((kb, cb))) = (a.na, b.na) {
        use NaKind::*;
        return match (ka, kb) {
            (CellRead, CellRead) => false,
            (CellRead, CellWrite) | (CellWrite, CellRead) | (CellWrite, CellWrite) => ca == cb,
            (WithMut, WithMut) | (WithMut, UnsyncLoad) | (UnsyncLoad, WithMut) => ca == cb,
            (UnsyncLoad, UnsyncLoad) => false,
            _ => false,
        };
    }
    // non-atomic access to an atomic vs atomic access to the same atomic
    let (na, at, iat) = match (a.na, b.na) {
        (Some(x), None) => (x, b, ib),
        (None, Some(x)) => (x, a, ia),
        _ => return false,
    };
    let (k, loc) = na;
    if at.loc != Some(loc) {
        return false;
    }
    match k {
        NaKind::WithMut => matches!(kind[iat], K::R | K::W | K::U),
        // unsync_load conflicts with atomic stores / rmws only
        NaKind::UnsyncLoad => matches!(kind[iat], K::W | K::U),
        _ => false,
    }
}

fn permutations(items: &[usize]) -> Vec<Vec<usize>> {
    if items.is_empty() {
        return vec![vec![]];
    }
    let mut out = vec![];
    for i in 0..items.len() {
        let mut rest = items.to_vec();
        let x = rest.remove(i);
        for mut p in permutations(&rest) {
            p.insert(0, x);
            out.push(p);
        }
    }
    out
}

/// Is this program inside R-AX's fragment?
pub fn supports(prog: &Program) -> bool {
    prog.ops().all(|(_, _, op)| {
        matches!(
            op,
            Op::Store { .. }
                | Op::Load { .. }
                | Op::Await { .. }
                | Op::Swap { .. }
                | Op::FetchAdd { .. }
                | Op::Cas { .. }
                | Op::Fence { .. }
                | Op::CellRead { .. }
                | Op::CellWrite { .. }
                | Op::AtomWithMut { .. }
                | Op::AtomUnsyncLoad { .. }
                | Op::Spawn { .. }
                | Op::Join { .. }
                | Op::Yield
                | Op::LoopCounter
                | Op::StopExploring
                | Op::Explore
        )
    })
}

/// The bracket: `a` = strongest reading (must appear), `u` = weakest reading (may appear).
pub struct Bracket {
    pub a: AxResult,
    pub u: AxResult,
    /// `a` restricted to executions whose SeqCst-fence order is compatible with an execution order
    /// (`None` when the program has fewer than two SeqCst events: then it equals `a`)
    pub a_op: Option<AxResult>,
}

pub fn bracket(prog: &Program, budget: u64) -> Bracket {
    let nsc = prog.count(|o| {
        matches!(
            o,
            Op::Fence { o: MO::Sc }
                | Op::Load { o: MO::Sc, .. }
                | Op::Store { o: MO::Sc, .. }
                | Op::Swap { o: MO::Sc, .. }
                | Op::FetchAdd { o: MO::Sc, .. }
                | Op::Cas { s: MO::Sc, .. }
                | Op::Cas { f: MO::Sc, .. }
                | Op::Await { o: MO::Sc, .. }
        )
    });
    Bracket {
        a: enumerate(prog, false, true, budget),
        u: enumerate(prog, true, false, budget),
        a_op: if nsc >= 2 || prog.has(|o| matches!(o, Op::Cas { .. })) { Some(enumerate_opt(prog, false, true, true, budget)) } else { None },
    }
}
