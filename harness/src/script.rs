//! Multi-run scripts executed in a fresh child process (`lv subrun`): sequences of model runs in
//! one process, optionally several at once on separate OS threads, with checkpoint files and
//! injected crashes. Used by C13 (determinism / checkpoint resume), C16 (isolation) and C06
//! (a failing run followed by a sentinel run in the same process).

use crate::dsl::*;
use crate::interp::{self, IterRec};
use serde::{Deserialize, Serialize};
use std::io::{Read, Write};
use std::process::{Command, Stdio};

#[derive(Clone, Debug, Serialize, Deserialize, Default)]
pub struct RunSpec {
    pub prog: Program,
    pub cfg: Config,
    #[serde(default)]
    pub checkpoint_file: Option<String>,
    #[serde(default)]
    pub crash_at: Option<usize>,
    #[serde(default)]
    pub max_duration_s: Option<u64>,
    /// keep at most this many iteration records (the rest is only counted)
    #[serde(default)]
    pub keep: Option<usize>,
}

#[derive(Clone, Debug, Serialize, Deserialize, Default)]
pub struct Step {
    pub runs: Vec<RunSpec>,
    /// run all `runs` of this step at the same time on separate OS threads
    #[serde(default)]
    pub parallel: bool,
}

#[derive(Clone, Debug, Serialize, Deserialize, Default)]
pub struct Script {
    pub steps: Vec<Step>,
}

#[derive(Clone, Debug, Serialize, Deserialize, Default, PartialEq)]
pub struct RunResult {
    pub iters: usize,
    pub panic: Option<String>,
    pub capped: bool,
    pub records: Vec<IterRec>,
}

pub type ScriptResult = Vec<Vec<RunResult>>;

fn run_one(spec: &RunSpec) -> RunResult {
    let opts = interp::RunOpts {
        checkpoint_file: spec.checkpoint_file.as_ref().map(std::path::PathBuf::from),
        max_duration: spec.max_duration_s.map(std::time::Duration::from_secs),
        hook: None,
        crash_at_iteration: spec.crash_at,
    };
    let c = interp::collect_with(&spec.prog, &spec.cfg, opts, true);
    let mut records = c.records;
    if let Some(k) = spec.keep {
        records.truncate(k);
    }
    RunResult { iters: c.report.iters, panic: c.report.panic, capped: c.report.capped, records }
}

pub fn execute(script: &Script) -> ScriptResult {
    let mut out = vec![];
    for step in &script.steps {
        if step.parallel {
            let handles: Vec<_> = step
                .runs
                .iter()
                .cloned()
                .map(|spec| {
                    std::thread::Builder::new().stack_size(8 << 20).spawn(move || {
                        std::panic::set_hook(Box::new(|_| {}));
                        run_one(&spec)
                    })
                })
                .collect();
            let mut rs = vec![];
            for h in handles {
                rs.push(match h {
                    Ok(h) => h.join().unwrap_or_else(|_| RunResult { panic: Some("HARNESS: OS thread panicked".into()), ..Default::default() }),
                    Err(_) => RunResult { panic: Some("HARNESS: cannot spawn OS thread".into()), ..Default::default() },
                });
            }
            out.push(rs);
        } else {
            out.push(step.runs.iter().map(run_one).collect());
        }
    }
    out
}

/// Entry of `lv subrun`: script on stdin, result on stdout.
pub fn subrun_main() -> i32 {
    let mut s = String::new();
    if std::io::stdin().read_to_string(&mut s).is_err() {
        return 98;
    }
    let script: Script = match serde_json::from_str(&s) {
        Ok(x) => x,
        Err(e) => {
            eprintln!("bad script: {}", e);
            return 98;
        }
    };
    let r = execute(&script);
    let out = serde_json::to_string(&r).unwrap();
    let mut so = std::io::stdout();
    let _ = so.write_all(out.as_bytes());
    let _ = so.flush();
    0
}

#[derive(Debug)]
pub enum SubErr {
    /// the child died from a signal (abort, segfault): the number
    Signal(i32),
    Other(String),
}

/// Run a script in a fresh child process.
pub fn run_fresh(script: &Script) -> Result<ScriptResult, SubErr> {
    let exe = std::env::current_exe().map_err(|e| SubErr::Other(e.to_string()))?;
    let mut child = Command::new(exe)
        .arg("subrun")
        .stdin(Stdio::piped())
        .stdout(Stdio::piped())
        .stderr(Stdio::null())
        .env("RUST_BACKTRACE", "0")
        .spawn()
        .map_err(|e| SubErr::Other(e.to_string()))?;
    {
        let mut si = child.stdin.take().unwrap();
        let _ = si.write_all(serde_json::to_string(script).unwrap().as_bytes());
    }
    let out = child.wait_with_output().map_err(|e| SubErr::Other(e.to_string()))?;
    if !out.status.success() {
        use std::os::unix::process::ExitStatusExt;
        return Err(match out.status.signal() {
            Some(sig) => SubErr::Signal(sig),
            None => SubErr::Other(format!("exit code {:?}", out.status.code())),
        });
    }
    serde_json::from_slice(&out.stdout).map_err(|e| SubErr::Other(format!("unparsable subrun output: {}", e)))
}

use std::collections::HashMap;

/// Addresses differ between processes: replace them by first-occurrence indices per iteration.
pub fn normalise(r: &RunResult) -> RunResult {
    let mut out = r.clone();
    for rec in out.records.iter_mut() {
        let mut ids: HashMap<i64, i64> = HashMap::new();
        for n in rec.notes.iter_mut() {
            if n.0 == interp::NOTE_LAZY_ADDR {
                let k = ids.len() as i64;
                n.2 = *ids.entry(n.2).or_insert(k);
            }
        }
    }
    out
}


/// A scratch file path under <root>/build/tmp (never /tmp), unique per process and call.
pub fn scratch_file(tag: &str) -> std::path::PathBuf {
    use std::sync::atomic::{AtomicUsize, Ordering};
    static N: AtomicUsize = AtomicUsize::new(0);
    let root = std::env::var("LV_ROOT").unwrap_or_else(|_| "/verif".into());
    let dir = std::path::Path::new(&root).join("build").join("tmp");
    let _ = std::fs::create_dir_all(&dir);
    dir.join(format!("{}-{}-{}.json", tag, std::process::id(), N.fetch_add(1, Ordering::SeqCst)))
}
