//! R-SC: exhaustive interleaving reference for every primitive of the DSL.
//!
//! A state holds the program counter / phase / results of every thread and the
//! state of every object, with the semantics of the std API that loom mocks
//! (plus loom's documented modelling choices: no spurious condvar wake-ups,
//! one spurious return per `Notify`, strong compare_exchange_weak, atomics
//! sequentially consistent *in this reference*). A transition runs one step of
//! one enabled thread atomically. Plain memoised DFS, no reduction.
//!
//! Optionally vector clocks are carried along to decide data races on
//! non-atomic cells, in two flavours: `hb_min` (only the edges the property
//! text names) and `hb_max` (every plausible edge).

use crate::dsl::*;
use std::collections::{BTreeSet, HashSet};

pub const MAXT: usize = 5;
type VC = [u8; MAXT];

fn vc_join(a: &mut VC, b: &VC) {
    for i in 0..MAXT {
        if b[i] > a[i] {
            a[i] = b[i];
        }
    }
}
fn vc_le(a: &VC, b: &VC) -> bool {
    (0..MAXT).all(|i| a[i] <= b[i])
}

#[derive(Clone, PartialEq, Eq, Hash, Debug, Default)]
struct Clocks {
    th: Vec<VC>,
    mtx: Vec<VC>,
    rw_w: Vec<VC>,
    rw_r: Vec<VC>,
    msgs: Vec<VC>,
    chan: VC,
    tok: Vec<VC>,
    nf: Vec<VC>,
    wake: Vec<VC>,
    exit: Vec<VC>,
    spawn: Vec<VC>,
    arc: Vec<VC>,
    lazy: Vec<VC>,
    cell_w: Vec<VC>,
    cell_r: Vec<VC>,
}

#[derive(Clone, PartialEq, Eq, Hash, Debug)]
pub struct St {
    pc: Vec<u8>,
    phase: Vec<u8>,
    started: Vec<bool>,
    exited: Vec<bool>,
    res: Outcome,
    atom: Vec<i64>,
    mtx_owner: Vec<i8>,
    mtx_val: Vec<i64>,
    rw_writer: Vec<i8>,
    rw_readers: Vec<u8>,
    rw_val: Vec<i64>,
    cv_q: Vec<Vec<u8>>,
    woken: Vec<bool>,
    nf_flag: Vec<bool>,
    nf_spur: Vec<bool>,
    tok: Vec<bool>,
    queue: Vec<u8>,
    rx_dropped: bool,
    arc_cnt: Vec<u8>,
    arc_payload_drops: Vec<u8>,
    handles: Vec<Vec<u8>>,
    /// 0 = none, 1 = live in the table, 2 = leaked (forgotten)
    tracks: Vec<u8>,
    forgotten_tracks: u8,
    allocs: Vec<bool>,
    tls_init: Vec<[bool; 2]>,
    tls_cnt: Vec<[u8; 2]>,
    lazy_init: [bool; 3],
    panicked: bool,
    /// position in the constraining log (trace validation only)
    logpos: u16,
    /// the thread whose last step was `yield_now` (loom semantics, `Opts::yield_sem`): it is not
    /// scheduled at the next decision if another thread can run
    yielded: Option<u8>,
    /// bit t: thread t has reached its first scheduling point (only tracked with `Opts::yield_sem`:
    /// scheduling a freshly spawned thread takes it to its first operation without performing it)
    arrived: u8,
    /// (`Opts::yield_sem`) some yield on the path was followed by an operation of another thread
    /// that does not conflict with the yielding thread's next operation: whether the yielding
    /// thread is placed exactly there depends on an order of two independent operations, which a
    /// partial-order reduction does not enumerate (finding F13)
    nonrobust: bool,
    /// (`Opts::freeze`) main is between `stop_exploring()` and `explore()`: no scheduling decision
    /// taken now is explored, i.e. main keeps running as long as it can
    frozen: bool,
    /// relaxed probe stores seen so far in the replay: (location, value, thread, own clock component)
    probes: Vec<(u8, u8, u8, u8)>,
    ck: Option<Box<(Clocks, Clocks)>>,
}

#[derive(Clone, Debug, Default)]
pub struct Opts {
    /// notify_one may wake any waiter (validity) instead of the first one (FIFO)
    pub notify_any: bool,
    /// carry vector clocks and decide races
    pub clocks: bool,
    /// the single spurious return of `Notify::wait` is possible
    pub spurious: bool,
    pub max_states: usize,
    /// model loom's `yield_now`: the yielding thread skips the next scheduling decision if any other
    /// thread can run (default: yield is a no-op)
    pub yield_sem: bool,
    /// model the exploration controls: 0 = ignore them, 1 = `stop_exploring` .. `explore` regions of
    /// main are frozen (only main runs while it can), 2 = additionally frozen from the start
    /// (`expect_explicit_explore`)
    pub freeze: u8,
}

impl Opts {
    pub fn new() -> Opts {
        Opts { notify_any: false, clocks: false, spurious: true, max_states: 400_000, yield_sem: false, freeze: 0 }
    }
}

#[derive(Clone, Debug, Default, PartialEq, Eq, PartialOrd, Ord)]
pub struct LeakKinds {
    pub arc: bool,
    pub alloc: bool,
    pub msgs: bool,
}
impl LeakKinds {
    pub fn any(&self) -> bool {
        self.arc || self.alloc || self.msgs
    }
}

#[derive(Clone, Debug, Default)]
pub struct ScResult {
    /// results at terminal states without a leak
    pub outcomes: BTreeSet<Outcome>,
    /// (`Opts::yield_sem`) results at terminal states reached without a non-robust yield placement
    pub robust_outcomes: BTreeSet<Outcome>,
    /// results at terminal states with a leak
    pub leak_outcomes: BTreeSet<Outcome>,
    pub leaks: LeakKinds,
    pub deadlock: bool,
    /// partial results at deadlock states
    pub deadlock_outcomes: BTreeSet<Outcome>,
    pub panic_reachable: bool,
    /// partial results at the moment an injected panic fires
    pub panic_outcomes: BTreeSet<Outcome>,
    pub race_min: bool,
    pub race_max: bool,
    /// two conflicting accesses simultaneously enabled in some state
    pub race_adjacent: bool,
    pub states: usize,
    pub truncated: bool,
    /// max number of simultaneously blocked threads seen in any state
    pub max_blocked: usize,
    /// some state has two threads inside / requesting the same lock (contention)
    pub contended: bool,
    /// payload of some arc dropped more than once / by a non-final drop (model sanity, always false)
    pub ill_formed: Option<String>,
    /// a send can take effect after the receiver was dropped
    pub send_after_rx_drop: bool,
    /// a notify_one can find two or more waiters queued (the choice of the waiter is free)
    pub notify_one_choice: bool,
    /// a try_lock / try_read / try_write / try_recv can fail in some reachable state
    pub try_can_fail: bool,
}

pub struct Sc<'a> {
    prog: &'a Program,
    opts: Opts,
    n: usize,
    /// (send_after_rx_drop, notify_one_choice, try_can_fail)
    flags: std::cell::Cell<(bool, bool, bool)>,
    stale: std::cell::RefCell<Option<Stale>>,
}

enum Step {
    /// hidden step (phase change), op not completed
    Hidden(St),
    /// op completed with optional result
    Done(St),
}

impl<'a> Sc<'a> {
    pub fn new(prog: &'a Program, opts: Opts) -> Sc<'a> {
        Sc { prog, opts, n: prog.n_threads(), flags: std::cell::Cell::new((false, false, false)), stale: std::cell::RefCell::new(None) }
    }

    fn init(&self) -> St {
        let p = self.prog;
        let n = self.n;
        let mut handles = vec![vec![0u8; p.n_arcs()]; n];
        for (x, o) in p.arc_owner.iter().enumerate() {
            handles[*o as usize][x] += 1;
        }
        let mk = || Clocks {
            th: {
                let mut v = vec![[0u8; MAXT]; n];
                v[0][0] = 1;
                v
            },
            mtx: vec![[0; MAXT]; p.n_mutexes()],
            rw_w: vec![[0; MAXT]; p.n_rwlocks()],
            rw_r: vec![[0; MAXT]; p.n_rwlocks()],
            msgs: vec![],
            chan: [0; MAXT],
            tok: vec![[0; MAXT]; n],
            nf: vec![[0; MAXT]; p.n_notifies()],
            wake: vec![[0; MAXT]; n],
            exit: vec![[0; MAXT]; n],
            spawn: vec![[0; MAXT]; n],
            arc: vec![[0; MAXT]; p.n_arcs()],
            lazy: vec![[0; MAXT]; 3],
            cell_w: vec![[0; MAXT]; p.n_cells() + p.n_arcs() + 3 + p.n_atomics()],
            cell_r: vec![[0; MAXT]; p.n_cells() + p.n_arcs() + 3 + p.n_atomics()],
        };
        let mut started = vec![false; n];
        started[0] = true;
        St {
            pc: vec![0; n],
            phase: vec![0; n],
            started,
            exited: vec![false; n],
            res: vec![vec![]; n],
            atom: vec![0; p.n_atomics()],
            mtx_owner: vec![-1; p.n_mutexes()],
            mtx_val: vec![0; p.n_mutexes()],
            rw_writer: vec![-1; p.n_rwlocks()],
            rw_readers: vec![0; p.n_rwlocks()],
            rw_val: vec![0; p.n_rwlocks()],
            cv_q: vec![vec![]; p.n_condvars()],
            woken: vec![false; n],
            nf_flag: vec![false; p.n_notifies()],
            nf_spur: vec![false; p.n_notifies()],
            tok: vec![false; n],
            queue: vec![],
            rx_dropped: false,
            arc_cnt: vec![1; p.n_arcs()],
            arc_payload_drops: vec![0; p.n_arcs()],
            handles,
            tracks: vec![0; p.n_tracks()],
            forgotten_tracks: 0,
            allocs: vec![false; p.n_tracks()],
            tls_init: vec![[false; 2]; n],
            tls_cnt: vec![[0; 2]; n],
            lazy_init: [false; 3],
            panicked: false,
            logpos: 0,
            yielded: None,
            arrived: if self.opts.yield_sem { 1 } else { 0xff },
            nonrobust: false,
            frozen: self.opts.freeze == 2,
            probes: vec![],
            ck: if self.opts.clocks { Some(Box::new((mk(), mk()))) } else { None },
        }
    }

    // ---- clock helpers: f(min, max) ----
    fn rel(ck: &mut Option<Box<(Clocks, Clocks)>>, t: usize, f: impl Fn(&mut Clocks) -> &mut VC, min: bool, max: bool) {
        if let Some(b) = ck {
            let (a, z) = &mut **b;
            for (c, on) in [(a, min), (z, max)] {
                let tc = c.th[t];
                if on {
                    vc_join(f(c), &tc);
                }
                c.th[t][t] += 1;
            }
        }
    }
    fn acq(ck: &mut Option<Box<(Clocks, Clocks)>>, t: usize, f: impl Fn(&Clocks) -> VC, min: bool, max: bool) {
        if let Some(b) = ck {
            let (a, z) = &mut **b;
            for (c, on) in [(a, min), (z, max)] {
                if on {
                    let oc = f(c);
                    vc_join(&mut c.th[t], &oc);
                }
            }
        }
    }
    /// access to non-atomic location `loc`; returns (race_min, race_max)
    fn access(ck: &mut Option<Box<(Clocks, Clocks)>>, t: usize, loc: usize, write: bool) -> (bool, bool) {
        let mut r = [false, false];
        if let Some(b) = ck {
            let (a, z) = &mut **b;
            for (k, c) in [a, z].into_iter().enumerate() {
                let tc = c.th[t];
                if !vc_le(&c.cell_w[loc], &tc) {
                    r[k] = true;
                }
                if write {
                    if !vc_le(&c.cell_r[loc], &tc) {
                        r[k] = true;
                    }
                    vc_join(&mut c.cell_w[loc], &tc);
                } else {
                    vc_join(&mut c.cell_r[loc], &tc);
                }
            }
        }
        (r[0], r[1])
    }

    fn cell_loc(&self, c: u8) -> usize {
        c as usize
    }
    fn arc_loc(&self, x: u8) -> usize {
        self.prog.n_cells() + x as usize
    }
    fn lazy_loc(&self, k: u8) -> usize {
        self.prog.n_cells() + self.prog.n_arcs() + k as usize
    }
    fn atom_loc(&self, a: u8) -> usize {
        self.prog.n_cells() + self.prog.n_arcs() + 3 + a as usize
    }

    /// All steps thread `t` can take in `st`. `races` accumulates (min, max).
    fn steps(&self, st: &St, t: usize, out: &mut Vec<Step>, races: &mut (bool, bool)) {
        if !st.started[t] || st.exited[t] || st.panicked {
            return;
        }
        if st.arrived & (1 << t) == 0 {
            let mut s = st.clone();
            s.arrived |= 1 << t;
            out.push(Step::Hidden(s));
            return;
        }
        let ops = &self.prog.threads[t];
        let pc = st.pc[t] as usize;
        if pc >= ops.len() {
            // handles still owned by the thread are dropped at its end, one at a time (each
            // decrement is a step of its own: other threads can observe the counts in between)
            if let Some(x) = (0..st.arc_cnt.len()).find(|&x| st.handles[t][x] > 0) {
                // (guards are released first, see below: the interpreter drops guards before handles)
                let holds_lock = st.mtx_owner.iter().any(|&o| o == t as i8)
                    || st.rw_writer.iter().any(|&o| o == t as i8)
                    || st.rw_readers.iter().any(|&r| r & (1 << t) != 0);
                if !holds_lock {
                    let mut s = st.clone();
                    s.handles[t][x] -= 1;
                    s.arc_cnt[x] -= 1;
                    Self::rel(&mut s.ck, t, |c| &mut c.arc[x], true, true);
                    if s.arc_cnt[x] == 0 {
                        Self::acq(&mut s.ck, t, |c| c.arc[x], true, true);
                        s.arc_payload_drops[x] += 1;
                        let l = self.arc_loc(x as u8);
                        let r = Self::access(&mut s.ck, t, l, false);
                        races.0 |= r.0;
                        races.1 |= r.1;
                    }
                    out.push(Step::Hidden(s));
                    return;
                }
            }
            // exit step: release guards, drop receiver, become joinable
            let mut s = st.clone();
            for m in 0..s.mtx_owner.len() {
                if s.mtx_owner[m] == t as i8 {
                    s.mtx_owner[m] = -1;
                    Self::rel(&mut s.ck, t, |c| &mut c.mtx[m], true, true);
                }
            }
            for r in 0..s.rw_writer.len() {
                if s.rw_writer[r] == t as i8 {
                    s.rw_writer[r] = -1;
                    Self::rel(&mut s.ck, t, |c| &mut c.rw_w[r], true, true);
                }
                if s.rw_readers[r] & (1 << t) != 0 {
                    s.rw_readers[r] &= !(1 << t);
                    Self::rel(&mut s.ck, t, |c| &mut c.rw_r[r], true, true);
                }
            }
            if self.prog.uses_channel() && self.prog.rx_owner as usize == t && !s.rx_dropped {
                s.rx_dropped = true;
                s.queue.clear();
                if let Some(b) = &mut s.ck {
                    b.0.msgs.clear();
                    b.1.msgs.clear();
                }
            }
            s.exited[t] = true;
            Self::rel(&mut s.ck, t, |c| &mut c.exit[t], true, true);
            out.push(Step::Hidden(s));
            return;
        }
        let op = &ops[pc];
        let mut s = st.clone();
        let ti = t as i8;
        macro_rules! done {
            () => {{
                s.pc[t] += 1;
                s.phase[t] = 0;
                out.push(Step::Done(s));
                return;
            }};
            ($v:expr) => {{
                let v: i64 = $v;
                s.res[t].push(v);
                s.pc[t] += 1;
                s.phase[t] = 0;
                out.push(Step::Done(s));
                return;
            }};
        }
        macro_rules! race {
            ($r:expr) => {{
                let r = $r;
                races.0 |= r.0;
                races.1 |= r.1;
            }};
        }
        match *op {
            Op::Load { a, .. } => done!(s.atom[a as usize]),
            Op::Store { a, v, .. } => {
                s.atom[a as usize] = v as i64;
                done!()
            }
            Op::Swap { a, v, .. } => {
                let old = s.atom[a as usize];
                s.atom[a as usize] = v as i64;
                done!(old)
            }
            Op::FetchAdd { a, v, .. } => {
                let old = s.atom[a as usize];
                s.atom[a as usize] = old + v as i64;
                done!(old)
            }
            Op::Cas { a, e, n, .. } => {
                let old = s.atom[a as usize];
                if old == e as i64 {
                    s.atom[a as usize] = n as i64;
                    done!(old)
                } else {
                    done!(-old - 1)
                }
            }
            // (the guard's store goes to a location nothing reads: no effect on results)
            Op::StopExploring => {
                if self.opts.freeze > 0 && t == 0 {
                    s.frozen = true;
                }
                done!()
            }
            Op::Explore => {
                if t == 0 {
                    s.frozen = false;
                }
                done!()
            }
            Op::Fence { .. } | Op::Yield | Op::SkipBranch | Op::DropGuardStore { .. } | Op::LoopCounter => done!(),
            Op::Await { a, v, .. } => {
                if s.atom[a as usize] == v as i64 {
                    done!()
                }
            }
            Op::AtomWithMut { a } => {
                let l = self.atom_loc(a);
                race!(Self::access(&mut s.ck, t, l, true));
                done!()
            }
            Op::AtomUnsyncLoad { a } => {
                let l = self.atom_loc(a);
                race!(Self::access(&mut s.ck, t, l, false));
                done!()
            }
            Op::CellRead { c } => {
                let l = self.cell_loc(c);
                race!(Self::access(&mut s.ck, t, l, false));
                done!()
            }
            Op::CellWrite { c } => {
                let l = self.cell_loc(c);
                race!(Self::access(&mut s.ck, t, l, true));
                done!()
            }
            Op::Lock { m } => {
                let m = m as usize;
                if s.mtx_owner[m] == -1 {
                    s.mtx_owner[m] = ti;
                    Self::acq(&mut s.ck, t, |c| c.mtx[m], true, true);
                    done!()
                }
            }
            Op::TryLock { m } => {
                let m = m as usize;
                if s.mtx_owner[m] == -1 {
                    s.mtx_owner[m] = ti;
                    Self::acq(&mut s.ck, t, |c| c.mtx[m], true, true);
                    done!(1)
                } else {
                    let f = self.flags.get();
                    self.flags.set((f.0, f.1, true));
                    done!(0)
                }
            }
            Op::Unlock { m } => {
                let m = m as usize;
                if s.mtx_owner[m] == ti {
                    s.mtx_owner[m] = -1;
                    Self::rel(&mut s.ck, t, |c| &mut c.mtx[m], true, true);
                }
                done!()
            }
            Op::Incr { m } => {
                s.mtx_val[m as usize] += 1;
                done!(s.mtx_val[m as usize])
            }
            Op::Get { m } | Op::MtxGetMut { m } | Op::MtxIntoInner { m } => done!(s.mtx_val[m as usize]),
            Op::Read { r } | Op::TryRead { r } => {
                let r = r as usize;
                let is_try = matches!(op, Op::TryRead { .. });
                if s.rw_writer[r] == -1 {
                    s.rw_readers[r] |= 1 << t;
                    Self::acq(&mut s.ck, t, |c| c.rw_w[r], true, true);
                    // reader-unlock -> reader-lock: only in hb_max
                    Self::acq(&mut s.ck, t, |c| c.rw_r[r], false, true);
                    done!(s.rw_val[r])
                } else if is_try {
                    let f = self.flags.get();
                    self.flags.set((f.0, f.1, true));
                    done!(-1)
                }
            }
            Op::Write { r } | Op::TryWrite { r } => {
                let r = r as usize;
                let is_try = matches!(op, Op::TryWrite { .. });
                if s.rw_writer[r] == -1 && s.rw_readers[r] == 0 {
                    s.rw_writer[r] = ti;
                    s.rw_val[r] += 1;
                    Self::acq(&mut s.ck, t, |c| c.rw_w[r], true, true);
                    Self::acq(&mut s.ck, t, |c| c.rw_r[r], true, true);
                    done!(s.rw_val[r])
                } else if is_try {
                    let f = self.flags.get();
                    self.flags.set((f.0, f.1, true));
                    done!(-1)
                }
            }
            Op::UnlockR { r } => {
                let r = r as usize;
                if s.rw_readers[r] & (1 << t) != 0 {
                    s.rw_readers[r] &= !(1 << t);
                    Self::rel(&mut s.ck, t, |c| &mut c.rw_r[r], true, true);
                }
                done!()
            }
            Op::UnlockW { r } => {
                let r = r as usize;
                if s.rw_writer[r] == ti {
                    s.rw_writer[r] = -1;
                    Self::rel(&mut s.ck, t, |c| &mut c.rw_w[r], true, true);
                }
                done!()
            }
            Op::RwGet { r } | Op::RwGetMut { r } | Op::RwIntoInner { r } => done!(s.rw_val[r as usize]),
            Op::CvWait { cv, m } | Op::CvWaitWhileZero { cv, m } => {
                let (cv, m) = (cv as usize, m as usize);
                let pred = matches!(op, Op::CvWaitWhileZero { .. });
                if s.phase[t] == 0 {
                    if pred && s.mtx_val[m] != 0 {
                        done!()
                    }
                    // atomically enqueue and release the mutex
                    s.cv_q[cv].push(t as u8);
                    s.mtx_owner[m] = -1;
                    Self::rel(&mut s.ck, t, |c| &mut c.mtx[m], true, true);
                    s.phase[t] = 1;
                    out.push(Step::Hidden(s));
                } else if s.woken[t] && s.mtx_owner[m] == -1 {
                    s.woken[t] = false;
                    s.mtx_owner[m] = ti;
                    Self::acq(&mut s.ck, t, |c| c.mtx[m], true, true);
                    // notifier -> woken thread (the property lists it: "the notifier's prior writes
                    // happen-before the woken thread's continuation")
                    Self::acq(&mut s.ck, t, |c| c.wake[t], true, true);
                    if pred {
                        // back to the predicate check (still the same op)
                        s.phase[t] = 0;
                        out.push(Step::Hidden(s));
                    } else {
                        done!()
                    }
                }
            }
            Op::NotifyOne { cv } => {
                let cv = cv as usize;
                if s.cv_q[cv].is_empty() {
                    done!()
                }
                if s.cv_q[cv].len() >= 2 {
                    let f = self.flags.get();
                    self.flags.set((f.0, true, f.2));
                }
                let choices = if self.opts.notify_any { s.cv_q[cv].len() } else { 1 };
                for i in 0..choices {
                    let mut s2 = s.clone();
                    let w = s2.cv_q[cv].remove(i) as usize;
                    s2.woken[w] = true;
                    if let Some(b) = &mut s2.ck {
                        for c in [&mut b.0, &mut b.1] {
                            let tc = c.th[t];
                            c.wake[w] = tc;
                            c.th[t][t] += 1;
                        }
                    }
                    s2.pc[t] += 1;
                    s2.phase[t] = 0;
                    out.push(Step::Done(s2));
                }
            }
            Op::NotifyAll { cv } => {
                let cv = cv as usize;
                let ws: Vec<u8> = s.cv_q[cv].drain(..).collect();
                for w in ws {
                    s.woken[w as usize] = true;
                    if let Some(b) = &mut s.ck {
                        for c in [&mut b.0, &mut b.1] {
                            let tc = c.th[t];
                            c.wake[w as usize] = tc;
                        }
                    }
                }
                if let Some(b) = &mut s.ck {
                    b.0.th[t][t] += 1;
                    b.1.th[t][t] += 1;
                }
                done!()
            }
            Op::NfWait { n } => {
                // loom decides when `wait` is called whether this call is the (single) spurious
                // return of the Notify; otherwise the call is a real wait that blocks until notified.
                let n = n as usize;
                if s.phase[t] == 0 {
                    if self.opts.spurious && !s.nf_spur[n] {
                        let mut s2 = s.clone();
                        s2.nf_spur[n] = true;
                        s2.pc[t] += 1;
                        out.push(Step::Done(s2));
                    }
                    s.phase[t] = 1;
                    out.push(Step::Hidden(s));
                } else if s.nf_flag[n] {
                    s.nf_flag[n] = false;
                    Self::acq(&mut s.ck, t, |c| c.nf[n], true, true);
                    done!()
                }
            }
            Op::NfNotify { n } => {
                let n = n as usize;
                s.nf_flag[n] = true;
                Self::rel(&mut s.ck, t, |c| &mut c.nf[n], true, true);
                done!()
            }
            Op::Park => {
                // phase 0: consume a stored token, or become parked; phase 1: parked, resumes when
                // an unpark hands the wake-up over directly (the token is then not stored)
                if s.phase[t] == 0 {
                    if s.tok[t] {
                        s.tok[t] = false;
                        Self::acq(&mut s.ck, t, |c| c.tok[t], true, true);
                        if let Some(b) = &mut s.ck {
                            b.0.tok[t] = [0; MAXT];
                            b.1.tok[t] = [0; MAXT];
                        }
                        done!()
                    } else {
                        s.phase[t] = 1;
                        out.push(Step::Hidden(s));
                    }
                } else if s.woken[t] {
                    s.woken[t] = false;
                    Self::acq(&mut s.ck, t, |c| c.tok[t], true, true);
                    if let Some(b) = &mut s.ck {
                        b.0.tok[t] = [0; MAXT];
                        b.1.tok[t] = [0; MAXT];
                    }
                    done!()
                }
            }
            Op::Unpark { t: u } => {
                let u = u as usize;
                let parked = s.started[u]
                    && !s.exited[u]
                    && s.phase[u] == 1
                    && matches!(self.prog.threads[u].get(s.pc[u] as usize), Some(Op::Park))
                    && !s.woken[u];
                if parked {
                    s.woken[u] = true;
                } else {
                    s.tok[u] = true;
                }
                if let Some(b) = &mut s.ck {
                    // every unpark that precedes the park-return which consumes the token is ordered
                    // before it (the token is one atomic: later unparks continue the release sequence)
                    let tc = b.0.th[t];
                    vc_join(&mut b.0.tok[u], &tc);
                    b.0.th[t][t] += 1;
                    let tc = b.1.th[t];
                    vc_join(&mut b.1.tok[u], &tc);
                    b.1.th[t][t] += 1;
                }
                done!()
            }
            Op::Spawn { t: u } => {
                let u = u as usize;
                s.started[u] = true;
                if let Some(b) = &mut s.ck {
                    for c in [&mut b.0, &mut b.1] {
                        let tc = c.th[t];
                        c.th[u] = tc;
                        c.th[u][u] += 1;
                        c.th[t][t] += 1;
                    }
                }
                done!()
            }
            Op::Join { t: u } => {
                let u = u as usize;
                if s.exited[u] {
                    Self::acq(&mut s.ck, t, |c| c.exit[u], true, true);
                    done!()
                }
            }
            Op::Send { v } => {
                if s.rx_dropped {
                    let f = self.flags.get();
                    self.flags.set((true, f.1, f.2));
                }
                s.queue.push(v);
                if let Some(b) = &mut s.ck {
                    // hb_min: the message carries the sender's clock only
                    let tc = b.0.th[t];
                    b.0.msgs.push(tc);
                    b.0.th[t][t] += 1;
                    // hb_max: it also carries the clocks of all earlier sends
                    let tc = b.1.th[t];
                    vc_join(&mut b.1.chan, &tc);
                    let cc = b.1.chan;
                    b.1.msgs.push(cc);
                    b.1.th[t][t] += 1;
                }
                done!()
            }
            Op::Recv | Op::TryRecv => {
                let is_try = matches!(op, Op::TryRecv);
                if !s.queue.is_empty() {
                    let v = s.queue.remove(0);
                    if let Some(b) = &mut s.ck {
                        for c in [&mut b.0, &mut b.1] {
                            let mc = c.msgs.remove(0);
                            vc_join(&mut c.th[t], &mc);
                        }
                    }
                    done!(v as i64)
                } else if is_try {
                    let f = self.flags.get();
                    self.flags.set((f.0, f.1, true));
                    done!(-1)
                }
            }
            Op::DropRx => {
                s.rx_dropped = true;
                s.queue.clear();
                if let Some(b) = &mut s.ck {
                    b.0.msgs.clear();
                    b.1.msgs.clear();
                }
                done!()
            }
            Op::ArcClone { x, to } => {
                s.arc_cnt[x as usize] += 1;
                s.handles[to as usize][x as usize] += 1;
                done!()
            }
            Op::ArcDrop { x } | Op::ArcDecStrong { x } | Op::ArcDropUnwind { x } => {
                let xi = x as usize;
                s.handles[t][xi] -= 1;
                s.arc_cnt[xi] -= 1;
                Self::rel(&mut s.ck, t, |c| &mut c.arc[xi], true, true);
                if s.arc_cnt[xi] == 0 {
                    Self::acq(&mut s.ck, t, |c| c.arc[xi], true, true);
                    s.arc_payload_drops[xi] += 1;
                    let l = self.arc_loc(x);
                    race!(Self::access(&mut s.ck, t, l, false));
                }
                done!()
            }
            Op::ArcCount { x } => {
                let xi = x as usize;
                Self::acq(&mut s.ck, t, |c| c.arc[xi], false, true);
                done!(s.arc_cnt[xi] as i64)
            }
            Op::ArcGetMut { x } => {
                let xi = x as usize;
                let only = s.arc_cnt[xi] == 1;
                Self::acq(&mut s.ck, t, |c| c.arc[xi], only, true);
                done!(only as i64)
            }
            Op::ArcTryUnwrap { x } => {
                let xi = x as usize;
                if s.arc_cnt[xi] == 1 {
                    Self::acq(&mut s.ck, t, |c| c.arc[xi], true, true);
                    s.arc_cnt[xi] = 0;
                    s.handles[t][xi] -= 1;
                    s.arc_payload_drops[xi] += 1;
                    let l = self.arc_loc(x);
                    race!(Self::access(&mut s.ck, t, l, false));
                    done!(1)
                } else {
                    Self::acq(&mut s.ck, t, |c| c.arc[xi], false, true);
                    done!(0)
                }
            }
            Op::ArcRawRoundTrip { .. } => done!(),
            Op::ArcIncStrong { x } => {
                s.arc_cnt[x as usize] += 1;
                s.handles[t][x as usize] += 1;
                done!()
            }
            Op::ArcForget { x } => {
                s.handles[t][x as usize] -= 1;
                done!()
            }
            Op::ArcCellWrite { x } => {
                let l = self.arc_loc(x);
                race!(Self::access(&mut s.ck, t, l, true));
                done!()
            }
            Op::ArcCellRead { x } => {
                let l = self.arc_loc(x);
                race!(Self::access(&mut s.ck, t, l, false));
                done!()
            }
            Op::TrackNew { k } => {
                s.tracks[k as usize] = 1;
                done!()
            }
            Op::TrackDrop { k } | Op::TrackDropUnwind { k } => {
                let had = s.tracks[k as usize] == 1;
                s.tracks[k as usize] = 0;
                done!(had as i64)
            }
            Op::TrackForget { k } => {
                let had = s.tracks[k as usize] == 1;
                if had {
                    s.tracks[k as usize] = 0;
                    s.forgotten_tracks += 1;
                }
                done!(had as i64)
            }
            Op::Alloc { k } => {
                s.allocs[k as usize] = true;
                done!()
            }
            Op::Dealloc { k } | Op::DeallocUnwind { k } => {
                let had = s.allocs[k as usize];
                s.allocs[k as usize] = false;
                done!(had as i64)
            }
            Op::TlsWith { k } | Op::TlsNested { k } => {
                let k = k as usize;
                if matches!(op, Op::TlsNested { .. }) {
                    s.tls_init[t][0] = true;
                    s.tls_init[t][1] = true;
                } else {
                    s.tls_init[t][k] = true;
                }
                done!(t as i64 * 16 + s.tls_cnt[t][k] as i64)
            }
            Op::TlsBump { k } => {
                let k = k as usize;
                s.tls_init[t][k] = true;
                s.tls_cnt[t][k] += 1;
                done!(t as i64 * 16 + s.tls_cnt[t][k] as i64)
            }
            Op::LazyGet { k } | Op::LazyCellRead { k } => {
                let ki = k as usize;
                if !s.lazy_init[ki] {
                    s.lazy_init[ki] = true;
                    let l = self.lazy_loc(k);
                    race!(Self::access(&mut s.ck, t, l, true));
                    Self::rel(&mut s.ck, t, |c| &mut c.lazy[ki], true, true);
                }
                Self::acq(&mut s.ck, t, |c| c.lazy[ki], true, true);
                if matches!(op, Op::LazyCellRead { .. }) {
                    let l = self.lazy_loc(k);
                    race!(Self::access(&mut s.ck, t, l, false));
                    done!(7 + k as i64)
                } else {
                    done!(k as i64)
                }
            }
            Op::CellNested { c, k } => {
                // the outer access, then loom's misuse panic
                let l = self.cell_loc(c);
                race!(Self::access(&mut s.ck, t, l, k != 1));
                s.panicked = true;
                out.push(Step::Done(s));
                return;
            }
            Op::PanicInCellMut { c } => {
                let l = self.cell_loc(c);
                race!(Self::access(&mut s.ck, t, l, true));
                s.panicked = true;
                out.push(Step::Done(s));
                return;
            }
            Op::PanicInAtomMut { a } => {
                let l = self.atom_loc(a);
                race!(Self::access(&mut s.ck, t, l, true));
                s.panicked = true;
                out.push(Step::Done(s));
                return;
            }
            Op::SkipNextUnless { v } => {
                let last = s.res[t].last().cloned().unwrap_or(0);
                s.pc[t] += if last == v as i64 { 1 } else { 2 };
                s.phase[t] = 0;
                out.push(Step::Done(s));
                return;
            }
            Op::PanicIf { v } => {
                let last = s.res[t].last().cloned().unwrap_or(0);
                if v < 0 || last == v as i64 {
                    s.panicked = true;
                    out.push(Step::Done(s));
                    return;
                }
                done!()
            }
        }
    }

    fn leaks(&self, st: &St) -> LeakKinds {
        LeakKinds {
            arc: st.arc_cnt.iter().any(|&c| c > 0),
            alloc: st.forgotten_tracks > 0 || st.allocs.iter().any(|&a| a),
            msgs: !st.queue.is_empty(),
        }
    }

    fn is_access(op: &Op) -> Option<(u8, u8, bool)> {
        // (namespace, index, write)
        match op {
            Op::CellRead { c } => Some((0, *c, false)),
            Op::CellWrite { c } => Some((0, *c, true)),
            Op::ArcCellRead { x } => Some((1, *x, false)),
            Op::ArcCellWrite { x } => Some((1, *x, true)),
            Op::AtomWithMut { a } => Some((2, *a, true)),
            Op::AtomUnsyncLoad { a } => Some((2, *a, false)),
            _ => None,
        }
    }

    /// (`Opts::freeze`) `spawn`, `stop_exploring` and `explore` are no scheduling points in loom: they
    /// run together with the operation before them, other threads get a chance only before the
    /// next real operation.
    fn glue(&self, mut s: St, t: usize) -> St {
        loop {
            match self.prog.threads[t].get(s.pc[t] as usize) {
                Some(Op::Spawn { .. }) | Some(Op::StopExploring) | Some(Op::Explore) => {
                    let mut out: Vec<Step> = vec![];
                    let mut dummy = (false, false);
                    self.steps(&s, t, &mut out, &mut dummy);
                    match out.pop() {
                        Some(Step::Done(ns)) if out.is_empty() => s = ns,
                        _ => return s,
                    }
                }
                _ => return s,
            }
        }
    }

    /// Explore everything.
    pub fn explore(&self) -> ScResult {
        let mut r = ScResult::default();
        let mut seen: HashSet<St> = HashSet::new();
        let init = if self.opts.freeze > 0 { self.glue(self.init(), 0) } else { self.init() };
        let mut stack = vec![init];
        let mut steps: Vec<Step> = vec![];
        let mut races = (false, false);
        while let Some(st) = stack.pop() {
            if seen.contains(&st) {
                continue;
            }
            if seen.len() >= self.opts.max_states {
                r.truncated = true;
                break;
            }
            if st.panicked {
                r.panic_reachable = true;
                r.panic_outcomes.insert(st.res.clone());
                seen.insert(st);
                continue;
            }
            // adjacency race + contention statistics
            let mut nexts: Vec<(usize, (u8, u8, bool))> = vec![];
            for t in 0..self.n {
                if st.started[t] && !st.exited[t] {
                    if let Some(op) = self.prog.threads[t].get(st.pc[t] as usize) {
                        if let Some(a) = Self::is_access(op) {
                            nexts.push((t, a));
                        }
                    }
                }
            }
            for i in 0..nexts.len() {
                for j in i + 1..nexts.len() {
                    let (a, b) = (nexts[i].1, nexts[j].1);
                    if a.0 == b.0 && a.1 == b.1 && (a.2 || b.2) {
                        r.race_adjacent = true;
                    }
                }
            }
            let mut any = false;
            let mut blocked = 0;
            let mut live = 0;
            // loom's yield semantics: the thread that just yielded sits out this decision if somebody else can run
            let mut sit_out: Option<usize> = None;
            if self.opts.yield_sem {
                if let Some(y) = st.yielded {
                    let y = y as usize;
                    let mut probe: Vec<Step> = vec![];
                    let mut dummy = (false, false);
                    for t in 0..self.n {
                        if t != y {
                            probe.clear();
                            self.steps(&st, t, &mut probe, &mut dummy);
                            if !probe.is_empty() {
                                sit_out = Some(y);
                                break;
                            }
                        }
                    }
                }
            }
            // inside a frozen region only main runs while it can
            let main_only = st.frozen && {
                steps.clear();
                let mut dummy = (false, false);
                self.steps(&st, 0, &mut steps, &mut dummy);
                !steps.is_empty()
            };
            for t in 0..self.n {
                steps.clear();
                self.steps(&st, t, &mut steps, &mut races);
                if main_only && t != 0 {
                    steps.clear();
                }
                if st.started[t] && !st.exited[t] {
                    live += 1;
                    if steps.is_empty() {
                        blocked += 1;
                    }
                }
                if sit_out == Some(t) {
                    steps.clear();
                    continue;
                }
                let is_yield = matches!(self.prog.threads[t].get(st.pc[t] as usize), Some(Op::Yield));
                // does this step, taken while `y` sits out, conflict with y's next operation?
                let absorbs_nonrobust = match sit_out {
                    Some(y) => {
                        let mine = self.prog.threads[t].get(st.pc[t] as usize);
                        let next = self.prog.threads[y].get(st.pc[y] as usize);
                        let wloc = match mine {
                            Some(Op::Store { a, .. }) | Some(Op::Swap { a, .. }) | Some(Op::FetchAdd { a, .. }) | Some(Op::Cas { a, .. }) => Some(*a),
                            _ => None,
                        };
                        let rloc = match next {
                            Some(Op::Load { a, .. }) | Some(Op::Await { a, .. }) | Some(Op::Swap { a, .. }) | Some(Op::FetchAdd { a, .. }) | Some(Op::Cas { a, .. }) => Some(*a),
                            _ => None,
                        };
                        // (steps that are not writes - arriving, exiting, joins, loads - change nothing the yielding thread can see)
                        wloc.is_some() && wloc != rloc
                    }
                    None => false,
                };
                for s in steps.drain(..) {
                    any = true;
                    match s {
                        Step::Hidden(mut s) => {
                            s.yielded = None;
                            stack.push(s)
                        }
                        Step::Done(mut s) => {
                            if self.opts.freeze > 0 {
                                s = self.glue(s, t);
                            }
                            s.nonrobust |= absorbs_nonrobust;
                            s.yielded = if self.opts.yield_sem && is_yield { Some(t as u8) } else { None };
                            stack.push(s)
                        }
                    }
                }
            }
            if blocked > r.max_blocked {
                r.max_blocked = blocked;
            }
            if blocked >= 1 && live >= 2 {
                r.contended = true;
            }
            if !any {
                if live == 0 {
                    let lk = self.leaks(&st);
                    if lk.any() {
                        r.leaks.arc |= lk.arc;
                        r.leaks.alloc |= lk.alloc;
                        r.leaks.msgs |= lk.msgs;
                        r.leak_outcomes.insert(st.res.clone());
                    } else {
                        r.outcomes.insert(st.res.clone());
                        if !st.nonrobust {
                            r.robust_outcomes.insert(st.res.clone());
                        }
                    }
                    for (x, d) in st.arc_payload_drops.iter().enumerate() {
                        if *d > 1 {
                            r.ill_formed = Some(format!("arc {} payload dropped {} times", x, d));
                        }
                    }
                } else {
                    r.deadlock = true;
                    r.deadlock_outcomes.insert(st.res.clone());
                }
            }
            seen.insert(st);
        }
        r.states = seen.len();
        let f = self.flags.get();
        r.send_after_rx_drop = f.0;
        r.notify_one_choice = f.1;
        r.try_can_fail = f.2;
        r.race_min = races.0;
        r.race_max = races.1;
        r
    }

    /// Trace validation: is there an execution of the reference whose sequence
    /// of completed operations is exactly `log` (hidden steps are free), whose
    /// results are a prefix-wise match of `results`, and that ends in a
    /// terminal state (`End::Complete`), a deadlock (`End::Deadlock`) or
    /// anywhere (`End::Any`, for iterations cut short by a panic)?
    pub fn accepts(&self, log: &[(u8, u8)], results: &Outcome, end: End) -> bool {
        self.replay(log, results, end, false) != Replay::Rejected
    }

    fn is_atomic_read(op: &Op) -> bool {
        matches!(op, Op::Load { .. } | Op::Swap { .. } | Op::FetchAdd { .. } | Op::Cas { .. })
    }

    /// Replays `log` on the reference machines. With `free_atomics` the values returned by
    /// atomic operations are taken from `results` instead of being computed (loom's atomics are
    /// weaker than the sequentially consistent ones of this reference). On acceptance returns the
    /// minimal number of preemptions over all accepting runs: a preemption is a switch from the
    /// thread of one log entry to a different thread of the next entry while the first thread's
    /// next operation could have completed in that state and its last operation was not a yield.
    pub fn replay(&self, log: &[(u8, u8)], results: &Outcome, end: End, free_atomics: bool) -> Replay {
        *self.stale.borrow_mut() = None;
        let mut best: Option<u32> = None;
        let mut seen: HashSet<(St, u32)> = HashSet::new();
        let mut stack = vec![(self.init(), 0u32)];
        let mut steps: Vec<Step> = vec![];
        let mut probe: Vec<Step> = vec![];
        let mut races = (false, false);
        while let Some((st, cnt)) = stack.pop() {
            if seen.contains(&(st.clone(), cnt)) {
                continue;
            }
            if seen.len() >= self.opts.max_states {
                return Replay::Inconclusive; // never turn a budget into a failure
            }
            if let Some(b) = best {
                if cnt >= b {
                    continue;
                }
            }
            let pos = st.logpos as usize;
            if pos == log.len() {
                // all visible steps consumed: check the end condition (allow hidden steps first)
                let live = (0..self.n).filter(|&t| st.started[t] && !st.exited[t]).count();
                let ok = match end {
                    End::Any => true,
                    End::Complete => live == 0,
                    End::Deadlock => {
                        let mut any = false;
                        for t in 0..self.n {
                            steps.clear();
                            self.steps(&st, t, &mut steps, &mut races);
                            if !steps.is_empty() {
                                any = true;
                            }
                        }
                        steps.clear();
                        !any && live > 0
                    }
                };
                if ok {
                    best = Some(best.map(|b| b.min(cnt)).unwrap_or(cnt));
                    if cnt == 0 {
                        return Replay::Accepted(0);
                    }
                    continue;
                }
            }
            for t in 0..self.n {
                steps.clear();
                self.steps(&st, t, &mut steps, &mut races);
                for s in steps.drain(..) {
                    match s {
                        Step::Hidden(s) => stack.push((s, cnt)),
                        Step::Done(mut s) => {
                            if pos < log.len() && log[pos] == (t as u8, st.pc[t]) {
                                let rec = &results[t];
                                if free_atomics && Self::is_atomic_read(&self.prog.threads[t][st.pc[t] as usize]) {
                                    let k = s.res[t].len();
                                    if k >= 1 && k <= rec.len() {
                                        s.res[t][k - 1] = rec[k - 1];
                                    }
                                }
                                // results so far must agree with the recorded ones
                                let rt = &s.res[t];
                                if rt.len() <= rec.len() && rt[..] == rec[..rt.len()] {
                                    let mut c = cnt;
                                    if pos > 0 {
                                        let p = log[pos - 1].0 as usize;
                                        if p != t && !st.exited[p] {
                                            let ppc = st.pc[p] as usize;
                                            let pops = &self.prog.threads[p];
                                            // a switch after `yield_now` is voluntary; the yield stays
                                            // outstanding while no other thread has run since (a thread
                                            // that yields when nobody else can run goes on, and loom
                                            // switches away from it at the next opportunity)
                                            let mut yielded = false;
                                            let mut q = pos;
                                            while q > 0 && log[q - 1].0 as usize == p {
                                                if matches!(pops[log[q - 1].1 as usize], Op::Yield) {
                                                    yielded = true;
                                                    break;
                                                }
                                                q -= 1;
                                            }
                                            // a switch inside `yield_now` is voluntary
                                            let yielding = ppc < pops.len() && matches!(pops[ppc], Op::Yield);
                                            if ppc < pops.len() && !yielded && !yielding {
                                                probe.clear();
                                                self.steps(&st, p, &mut probe, &mut races);
                                                if probe.iter().any(|x| matches!(x, Step::Done(_))) {
                                                    c += 1;
                                                }
                                                probe.clear();
                                            }
                                        }
                                    }
                                    // relaxed probes: coherence against the happens-before the primitives must provide
                                    if s.ck.is_some() {
                                        let op = &self.prog.threads[t][st.pc[t] as usize];
                                        match op {
                                            Op::Store { a, v, .. } => {
                                                let comp = {
                                                    let b = s.ck.as_mut().unwrap();
                                                    b.0.th[t][t] += 1;
                                                    b.1.th[t][t] += 1;
                                                    b.0.th[t][t]
                                                };
                                                s.probes.push((*a, *v, t as u8, comp));
                                            }
                                            Op::Load { a, .. } => {
                                                let r = *s.res[t].last().unwrap_or(&0);
                                                let cur = s.ck.as_ref().unwrap().0.th[t];
                                                let src = s.probes.iter().find(|p| p.0 == *a && p.1 as i64 == r).cloned();
                                                let mut stale: Option<Stale> = None;
                                                for p in s.probes.iter().filter(|p| p.0 == *a) {
                                                    let hb = p.3 <= cur[p.2 as usize];
                                                    let newer = match src {
                                                        None => r == 0,
                                                        Some(w) => w.2 == p.2 && p.3 > w.3,
                                                    };
                                                    if hb && newer {
                                                        stale = Some(Stale { pos, thread: t, loc: *a, read: r, newer: p.1 as i64 });
                                                    }
                                                }
                                                if let Some(x) = stale {
                                                    *self.stale.borrow_mut() = Some(x);
                                                    continue;
                                                }
                                            }
                                            _ => {}
                                        }
                                    }
                                    s.logpos += 1;
                                    stack.push((s, c));
                                }
                            }
                        }
                    }
                }
            }
            seen.insert((st, cnt));
        }
        match best {
            Some(b) => Replay::Accepted(b),
            None => {
                if self.stale.borrow().is_some() {
                    Replay::Stale
                } else {
                    Replay::Rejected
                }
            }
        }
    }

    pub fn last_stale(&self) -> Option<Stale> {
        self.stale.borrow().clone()
    }
}

#[derive(Clone, Copy, Debug, PartialEq, Eq)]
pub enum Replay {
    Accepted(u32),
    Rejected,
    Inconclusive,
    /// every replay consistent with the log contains a stale read (see `Sc::last_stale`)
    Stale,
}

/// A relaxed load returned a value although a newer store of the (single) writer of the location
/// happens-before the load along the edges the primitives must provide.
#[derive(Clone, Debug, PartialEq, Eq)]
pub struct Stale {
    pub pos: usize,
    pub thread: usize,
    pub loc: u8,
    pub read: i64,
    pub newer: i64,
}

#[derive(Clone, Copy, Debug, PartialEq, Eq)]
pub enum End {
    Complete,
    Deadlock,
    Any,
}

pub fn explore(prog: &Program, opts: Opts) -> ScResult {
    Sc::new(prog, opts).explore()
}
