//! Known findings: genuine defects of the pinned tree that are recorded, not
//! repaired. The file `/verif/known_findings.json` is committed and read-only
//! at run time. Each entry has a canonical reproducer (replayed on every run:
//! while it still misbehaves a `KNOWN-FINDING:` line is printed) and a class
//! predicate: a failure of the finding's *kind* on a program inside the class
//! is attributed to the finding; anything else is a violation.

use crate::case::*;
use crate::dsl::*;
use serde::{Deserialize, Serialize};

#[derive(Clone, Debug, Serialize, Deserialize)]
pub struct Finding {
    pub id: String,
    /// properties whose checks can run into this defect
    pub properties: Vec<String>,
    /// "known" | "fixed"
    pub status: String,
    #[serde(default)]
    pub commit: Option<String>,
    pub what: String,
    /// failure kinds (Verdict Fail.kind) this defect produces
    pub kinds: Vec<String>,
    /// name of the class predicate (see `in_class`)
    pub class: String,
    /// canonical reproducer, evaluated with the check of `reproducer.prop`
    pub reproducer: Case,
}

#[derive(Clone, Debug, Serialize, Deserialize, Default)]
pub struct KnownFile {
    pub findings: Vec<Finding>,
}

pub fn load(root: &std::path::Path) -> KnownFile {
    let p = root.join("known_findings.json");
    match std::fs::read_to_string(&p) {
        Ok(s) => serde_json::from_str(&s).unwrap_or_else(|e| {
            eprintln!("cannot parse {}: {}", p.display(), e);
            std::process::exit(2)
        }),
        Err(_) => KnownFile::default(),
    }
}

fn is_rmw(op: &Op) -> Option<u8> {
    match op {
        Op::Swap { a, .. } | Op::FetchAdd { a, .. } | Op::Cas { a, .. } => Some(*a),
        _ => None,
    }
}
fn is_store(op: &Op) -> Option<u8> {
    match op {
        Op::Store { a, .. } => Some(*a),
        _ => None,
    }
}

/// K7b: a location with an RMW/CAS in one thread and a plain store in another.
pub fn k7b(p: &Program) -> bool {
    for l in 0..p.n_atomics() as u8 {
        let rmw_th: Vec<usize> = p.ops().filter(|(_, _, o)| is_rmw(o) == Some(l)).map(|(t, _, _)| t).collect();
        let st_th: Vec<usize> = p.ops().filter(|(_, _, o)| is_store(o) == Some(l)).map(|(t, _, _)| t).collect();
        if rmw_th.iter().any(|a| st_th.iter().any(|b| a != b)) {
            return true;
        }
    }
    false
}

/// K7a: a location with >= 3 non-initial writes by >= 2 threads, at least one a plain store.
pub fn k7a(p: &Program) -> bool {
    for l in 0..p.n_atomics() as u8 {
        let ws: Vec<usize> =
            p.ops().filter(|(_, _, o)| is_rmw(o) == Some(l) || is_store(o) == Some(l)).map(|(t, _, _)| t).collect();
        let plain = p.ops().any(|(_, _, o)| is_store(o) == Some(l));
        let mut th = ws.clone();
        th.sort();
        th.dedup();
        if ws.len() >= 3 && th.len() >= 2 && plain {
            return true;
        }
    }
    false
}

/// Bit mask of the locations that put a program into K7a / K7b.
pub fn k7_locations(p: &Program) -> u32 {
    let mut mask = 0u32;
    for l in 0..p.n_atomics() as u8 {
        let rmw_th: Vec<usize> = p.ops().filter(|(_, _, o)| is_rmw(o) == Some(l)).map(|(t, _, _)| t).collect();
        let st_th: Vec<usize> = p.ops().filter(|(_, _, o)| is_store(o) == Some(l)).map(|(t, _, _)| t).collect();
        let b = rmw_th.iter().any(|a| st_th.iter().any(|b| a != b));
        let ws: Vec<usize> = rmw_th.iter().chain(st_th.iter()).cloned().collect();
        let mut th = ws.clone();
        th.sort();
        th.dedup();
        let a = ws.len() >= 3 && th.len() >= 2 && !st_th.is_empty();
        if a || b {
            mask |= 1 << l;
        }
    }
    mask
}

/// F7c: a compare_exchange on a location that another thread writes (a failing CAS is only a
/// load and may read any coherent value, but loom lets every RMW read the newest store only).
pub fn cas_other_writer(p: &Program) -> bool {
    p.ops().any(|(t, _, o)| match o {
        Op::Cas { a, .. } => p.ops().any(|(u, _, w)| u != t && (is_rmw(w) == Some(*a) || is_store(w) == Some(*a))),
        _ => false,
    })
}

pub fn atomics_class(p: &Program) -> Option<String> {
    if k7b(p) {
        Some("k7b".into())
    } else if k7a(p) {
        Some("k7a".into())
    } else {
        None
    }
}

fn lock_users(p: &Program) -> (Vec<Vec<usize>>, Vec<Vec<usize>>) {
    let mut mu = vec![vec![]; p.n_mutexes()];
    let mut ru = vec![vec![]; p.n_rwlocks()];
    for (t, _, op) in p.ops() {
        match op {
            Op::Lock { m } | Op::TryLock { m } | Op::CvWait { m, .. } | Op::CvWaitWhileZero { m, .. } => {
                if !mu[*m as usize].contains(&t) {
                    mu[*m as usize].push(t)
                }
            }
            Op::Read { r } | Op::TryRead { r } | Op::Write { r } | Op::TryWrite { r } => {
                if !ru[*r as usize].contains(&t) {
                    ru[*r as usize].push(t)
                }
            }
            _ => {}
        }
    }
    (mu, ru)
}

/// F9: a try_lock / try_read / try_write on a lock another thread also acquires.
pub fn try_lock_contended(p: &Program) -> bool {
    let (mu, ru) = lock_users(p);
    p.ops().any(|(_, _, op)| match op {
        Op::TryLock { m } => mu[*m as usize].len() >= 2,
        Op::TryRead { r } | Op::TryWrite { r } => ru[*r as usize].len() >= 2,
        _ => false,
    })
}

/// F2: a try_recv that can race with a send of another thread.
pub fn try_recv_race(p: &Program) -> bool {
    let rx = p.rx_owner as usize;
    p.has(|o| matches!(o, Op::TryRecv)) && p.ops().any(|(t, _, o)| matches!(o, Op::Send { .. }) && t != rx)
}

/// F5a: a user `unpark(t)` whose target thread also uses a blocking primitive
/// other than park, or yields (the token lives in the thread's run state and is
/// lost / misdelivered when the thread blocks on or is woken from anything else).
pub fn unpark_blocked_target(p: &Program) -> bool {
    p.ops().any(|(_, _, op)| match op {
        Op::Unpark { t } => p.threads[*t as usize].iter().any(|o| {
            matches!(
                o,
                Op::Lock { .. }
                    | Op::TryLock { .. }
                    | Op::Read { .. }
                    | Op::Write { .. }
                    | Op::TryRead { .. }
                    | Op::TryWrite { .. }
                    | Op::Recv
                    | Op::Join { .. }
                    | Op::CvWait { .. }
                    | Op::CvWaitWhileZero { .. }
                    | Op::NfWait { .. }
                    | Op::Await { .. }
                    | Op::Yield
            )
        }),
        _ => false,
    })
}

fn has_na_access(ops: &[Op]) -> bool {
    ops.iter().any(|o| {
        matches!(
            o,
            Op::CellRead { .. }
                | Op::CellWrite { .. }
                | Op::AtomWithMut { .. }
                | Op::AtomUnsyncLoad { .. }
                | Op::ArcCellRead { .. }
                | Op::ArcCellWrite { .. }
        )
    })
}

/// F5b: `unpark(t)` where `t` has a non-atomic access that is not preceded by a `park`.
pub fn unpark_no_park(p: &Program) -> bool {
    p.ops().any(|(_, _, op)| match op {
        Op::Unpark { t } => {
            let ops = &p.threads[*t as usize];
            let first_park = ops.iter().position(|o| matches!(o, Op::Park)).unwrap_or(ops.len());
            has_na_access(&ops[..first_park])
        }
        _ => false,
    })
}

/// F10: non-atomic accesses in two threads that both execute an SC fence.
pub fn sc_fence_pair(p: &Program) -> bool {
    let n = p.threads.iter().filter(|ops| has_na_access(ops) && ops.iter().any(|o| matches!(o, Op::Fence { o: MO::Sc }))).count();
    n >= 2
}

/// F6': an Arc inspection (strong_count / get_mut / try_unwrap) in one thread while another thread
/// owns a handle of the same Arc (every owner clones, drops or implicitly drops at its end).
pub fn arc_inspect_race(p: &Program) -> bool {
    for x in 0..p.n_arcs() as u8 {
        let insp: Vec<usize> = p
            .ops()
            .filter(|(_, _, o)| matches!(o, Op::ArcCount { x: y } | Op::ArcGetMut { x: y } | Op::ArcTryUnwrap { x: y } if *y == x))
            .map(|(t, _, _)| t)
            .collect();
        let mut holders: Vec<usize> = vec![p.arc_owner[x as usize] as usize];
        for (_, _, o) in p.ops() {
            if let Op::ArcClone { x: y, to } = o {
                if *y == x {
                    holders.push(*to as usize);
                }
            }
        }
        if insp.iter().any(|a| holders.iter().any(|b| a != b)) {
            return true;
        }
    }
    false
}

/// F5b/F5c: an `unpark` next to non-atomic accesses in a shape loom mishandles: the target has a
/// non-atomic access before its first `park`, the unparking thread performs a non-atomic access
/// after the `unpark`, or the target is unparked more than once.
pub fn unpark_na_unsafe(p: &Program) -> bool {
    if !p.threads.iter().any(|ops| has_na_access(ops)) {
        return false;
    }
    for (u, i, op) in p.ops() {
        if let Op::Unpark { t } = op {
            let tops = &p.threads[*t as usize];
            let first_park = tops.iter().position(|o| matches!(o, Op::Park)).unwrap_or(tops.len());
            if has_na_access(&tops[..first_park]) {
                return true;
            }
            if has_na_access(&p.threads[u][i + 1..]) {
                return true;
            }
            if p.count(|o| matches!(o, Op::Unpark { t: x } if x == t)) >= 2 {
                return true;
            }
        }
    }
    false
}

/// F5d: a thread that parks at least twice and is unparked at least twice (park/unpark are no
/// scheduling points, so only one relative order of the unparks and the parks is explored).
pub fn park_unpark_twice(p: &Program) -> bool {
    (0..p.n_threads()).any(|t| {
        p.threads[t].iter().filter(|o| matches!(o, Op::Park)).count() >= 2
            && p.count(|o| matches!(o, Op::Unpark { t: x } if *x as usize == t)) >= 2
    })
}

/// F5e: a thread waits on a `Notify` and parks later, and the `Notify` is notified at least twice
/// (a second `notify` that finds the waiter already runnable stores a park token in it).
pub fn notify_then_park(p: &Program) -> bool {
    p.threads.iter().any(|ops| {
        let w = ops.iter().position(|o| matches!(o, Op::NfWait { .. }));
        match w {
            Some(i) => ops[i + 1..].iter().any(|o| matches!(o, Op::Park)) && p.count(|o| matches!(o, Op::NfNotify { .. })) >= 2,
            None => false,
        }
    })
}

/// F13 (through the spurious return of `Notify::wait`, which yields): a thread waits on a `Notify`
/// and later performs an operation on an object that is shared with other threads.
pub fn op_after_spurious_wait(p: &Program) -> bool {
    p.threads.iter().any(|ops| match ops.iter().position(|o| matches!(o, Op::NfWait { .. })) {
        Some(i) => ops[i + 1..].iter().any(|o| {
            !matches!(
                o,
                Op::Join { .. }
                    | Op::Spawn { .. }
                    | Op::CellRead { .. }
                    | Op::CellWrite { .. }
                    | Op::TlsWith { .. }
                    | Op::TlsBump { .. }
                    | Op::TlsNested { .. }
                    | Op::Incr { .. }
                    | Op::Get { .. }
                    | Op::RwGet { .. }
                    | Op::Unlock { .. }
                    | Op::UnlockR { .. }
                    | Op::UnlockW { .. }
                    | Op::NfWait { .. }
            )
        }),
        None => false,
    })
}

/// F11: a non-atomic write performed while holding only a read guard of an RwLock.
pub fn write_under_read_lock(p: &Program) -> bool {
    p.threads.iter().any(|ops| {
        let mut r = 0i32;
        let mut w = 0i32;
        for o in ops {
            match o {
                Op::Read { .. } | Op::TryRead { .. } => r += 1,
                Op::UnlockR { .. } => r = (r - 1).max(0),
                Op::Write { .. } | Op::TryWrite { .. } => w += 1,
                Op::UnlockW { .. } => w = (w - 1).max(0),
                Op::CellWrite { .. } | Op::ArcCellWrite { .. } | Op::AtomWithMut { .. } if r > 0 && w == 0 => return true,
                _ => {}
            }
        }
        false
    })
}

pub fn in_class(class: &str, case: &Case, labels: &[String]) -> bool {
    let p = &case.prog;
    if let Some(l) = class.strip_prefix("label:") {
        return labels.iter().any(|x| x.strip_prefix("class:") == Some(l));
    }
    match class {
        "k7a" => k7a(p),
        "k7b" => k7b(p),
        "k7" => k7a(p) || k7b(p),
        "cas_other_writer" => cas_other_writer(p),
        "try_lock_contended" => try_lock_contended(p),
        "try_recv_race" => try_recv_race(p),
        "unpark_blocked_target" => unpark_blocked_target(p),
        "unpark_no_park" => unpark_no_park(p),
        "unpark_na_unsafe" => unpark_na_unsafe(p),
        "park_unpark_twice" => park_unpark_twice(p),
        "notify_then_park" => notify_then_park(p),
        "has_yield" => p.has(|o| matches!(o, Op::Yield)),
        "op_after_spurious_wait" => op_after_spurious_wait(p),
        "write_under_read_lock" => write_under_read_lock(p),
        "sc_fence_pair" => sc_fence_pair(p),
        "arc_inspect_race" => arc_inspect_race(p),
        "exact" => false, // only the reproducer itself
        _ => false,
    }
}

/// Which known finding (status "known") explains a failure of kind `kind` on `case`?
pub fn attribute<'a>(kf: &'a KnownFile, case: &Case, kind: &str, labels: &[String]) -> Option<&'a Finding> {
    kf.findings.iter().find(|f| {
        f.status == "known"
            && f.properties.iter().any(|p| p == &case.prop)
            && f.kinds.iter().any(|k| k == kind)
            && (in_class(&f.class, case, labels) || f.reproducer.prog == case.prog && f.reproducer.x == case.x)
    })
}

/// Is the case inside the class of some known finding relevant to its property?
pub fn any_class(kf: &KnownFile, case: &Case) -> Option<String> {
    kf.findings
        .iter()
        .find(|f| f.status == "known" && f.properties.iter().any(|p| p == &case.prop) && in_class(&f.class, case, &[]))
        .map(|f| f.id.clone())
}
