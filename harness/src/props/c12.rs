//! C12: loom atomics compute the same values as std atomics (differential).

use crate::case::*;
use crate::gen::Src;
use serde::{Deserialize, Serialize};
use std::sync::atomic::Ordering as O;

#[derive(Clone, Copy, Debug, PartialEq, Eq, Hash, Serialize, Deserialize)]
pub enum FuKind {
    AddOne,
    NoneIfEven,
    Not,
    Halve,
    NoneAlways,
    Const,
}

/// Orderings are stored as small integers: 0 Relaxed 1 Acquire 2 Release 3 AcqRel 4 SeqCst.
#[derive(Clone, Debug, PartialEq, Eq, Hash, Serialize, Deserialize)]
pub enum AOp {
    Load(u8),
    Store(u64, u8),
    Swap(u64, u8),
    Cas { e: u64, n: u64, s: u8, f: u8, weak: bool },
    /// expected value = the value currently stored (so the CAS succeeds)
    CasCur { n: u64, s: u8, f: u8, weak: bool },
    CompareAndSwap { e: u64, n: u64, o: u8 },
    Add(u64, u8),
    Sub(u64, u8),
    And(u64, u8),
    Nand(u64, u8),
    Or(u64, u8),
    Xor(u64, u8),
    Max(u64, u8),
    Min(u64, u8),
    FetchUpdate { kind: FuKind, v: u64, set: u8, fetch: u8 },
    /// `with_mut(|p| *p = p.wrapping_add(v) / !*p / v)`
    WithMut(u64),
    UnsyncLoad,
    /// `with_mut(|p| { *p = p.wrapping_add(v); panic!() })` inside `catch_unwind`: like `get_mut`
    /// of std, the write made before the panic stays (integer types only)
    WithMutPanic(u64),
}

#[derive(Clone, Debug, PartialEq, Eq, Hash, Serialize, Deserialize)]
pub struct AtomCase {
    pub ty: String,
    pub init: u64,
    pub ops: Vec<AOp>,
}

impl AtomCase {
    pub fn describe(&self) -> String {
        format!("Atomic<{}>::new({:#x}) {:?}", self.ty, self.init, self.ops)
    }
}

fn ord(o: u8) -> O {
    match o {
        0 => O::Relaxed,
        1 => O::Acquire,
        2 => O::Release,
        3 => O::AcqRel,
        _ => O::SeqCst,
    }
}

pub const TYPES: [&str; 12] = ["u8", "u16", "u32", "u64", "usize", "i8", "i16", "i32", "i64", "isize", "bool", "ptr"];

fn bits_of(ty: &str) -> u32 {
    match ty {
        "u8" | "i8" => 8,
        "u16" | "i16" => 16,
        "u32" | "i32" => 32,
        "bool" => 1,
        _ => 64,
    }
}

/// boundary-biased operand: a bit pattern interesting for a type of `bits` bits
fn operand(s: &mut Src, bits: u32) -> u64 {
    let mask: u64 = if bits >= 64 { u64::MAX } else { (1u64 << bits) - 1 };
    let sign: u64 = 1u64 << (bits.max(1) - 1);
    let v = match s.pick(16) {
        0 => 0,
        1 => 1,
        2 => mask,            // MAX unsigned / -1 signed
        3 => sign,            // MIN signed
        4 => sign - 1,        // MAX signed
        5 => sign + 1,        // MIN+1
        6 => mask - 1,        // MAX-1 unsigned / -2
        7 => 2,
        8 => (1u64 << s.pick(bits as usize)) & mask,
        9 => ((1u64 << s.pick(bits as usize)).wrapping_sub(1)) & mask,
        10 => ((1u64 << s.pick(bits as usize)).wrapping_add(1)) & mask,
        11 => sign | 1,
        12 => sign >> 1,
        13 => 0x5555_5555_5555_5555 & mask,
        14 => 0xAAAA_AAAA_AAAA_AAAA & mask,
        _ => {
            let hi = s.pick(65536) as u64;
            let lo = s.pick(65536) as u64;
            let m2 = s.pick(65536) as u64;
            ((hi << 48) | (m2 << 24) | lo | (hi << 8)) & mask
        }
    };
    // sign-extend patterns of narrow signed types are produced by the `as` casts at use
    v
}

fn load_o(s: &mut Src) -> u8 {
    [4u8, 0, 1][s.pick(3)]
}
fn store_o(s: &mut Src) -> u8 {
    [4u8, 0, 2][s.pick(3)]
}
fn rmw_o(s: &mut Src) -> u8 {
    [4u8, 0, 1, 2, 3][s.pick(5)]
}

pub fn build(draws: &[u16], tier: Tier) -> Case {
    let mut s = Src::new(draws);
    let ty = TYPES[s.pick(TYPES.len())];
    let bits = bits_of(ty);
    let init = operand(&mut s, bits);
    let max_len = if tier == Tier::Thorough { 40 } else { 24 };
    let n = s.range(1, max_len);
    let mut ops = vec![];
    for _ in 0..n {
        let is_bool = ty == "bool";
        let is_ptr = ty == "ptr";
        let k = s.pick(20);
        let v = operand(&mut s, bits);
        let op = match k {
            0 => AOp::Load(load_o(&mut s)),
            1 => AOp::Store(v, store_o(&mut s)),
            2 => AOp::Swap(v, rmw_o(&mut s)),
            3 => AOp::Cas { e: v, n: operand(&mut s, bits), s: rmw_o(&mut s), f: load_o(&mut s), weak: s.chance(1, 2) },
            4 => AOp::CasCur { n: v, s: rmw_o(&mut s), f: load_o(&mut s), weak: s.chance(1, 2) },
            5 => AOp::CompareAndSwap { e: v, n: operand(&mut s, bits), o: rmw_o(&mut s) },
            6 if !is_ptr && !is_bool => AOp::Add(v, rmw_o(&mut s)),
            7 if !is_ptr && !is_bool => AOp::Sub(v, rmw_o(&mut s)),
            8 if !is_ptr => AOp::And(v, rmw_o(&mut s)),
            9 if !is_ptr => AOp::Nand(v, rmw_o(&mut s)),
            10 if !is_ptr => AOp::Or(v, rmw_o(&mut s)),
            11 if !is_ptr => AOp::Xor(v, rmw_o(&mut s)),
            12 | 13 if !is_ptr && !is_bool => AOp::Max(v, rmw_o(&mut s)),
            14 | 15 if !is_ptr && !is_bool => AOp::Min(v, rmw_o(&mut s)),
            16 => AOp::FetchUpdate {
                kind: [FuKind::AddOne, FuKind::NoneIfEven, FuKind::Not, FuKind::Halve, FuKind::NoneAlways, FuKind::Const][s.pick(6)],
                v,
                set: rmw_o(&mut s),
                fetch: load_o(&mut s),
            },
            17 => AOp::WithMut(v),
            18 => AOp::UnsyncLoad,
            19 if !is_ptr && !is_bool && s.chance(1, 2) => AOp::WithMutPanic(v),
            _ => AOp::Swap(v, rmw_o(&mut s)),
        };
        ops.push(op);
    }
    let mut c = Case::new("C12", "seq", Default::default());
    c.x.atom = Some(AtomCase { ty: ty.to_string(), init, ops });
    c
}

/// Exhaustive 8-bit sub-domain: for one current value and one binary operation,
/// every operand (256) on u8 and i8.
pub fn exhaustive8_cases() -> Vec<Case> {
    let mut v = vec![];
    for ty in ["u8", "i8"] {
        for opk in 0..9u64 {
            for chunk in 0..8u64 {
                let mut c = Case::new("C12", "exh8", Default::default());
                c.x.mode = Some(ty.to_string());
                c.x.n = Some(opk as i64);
                c.x.k = Some(chunk as i64);
                v.push(c);
            }
        }
    }
    v
}

/// one recorded step result: (is_ok / flag, value bits)
type Rec = Vec<(u8, u64)>;

macro_rules! run_int {
    ($t:ty, $loom:ty, $std:ty, $case:expr) => {{
        let case: &AtomCase = $case;
        let ops = case.ops.clone();
        let init = case.init as $t;
        let std_rec: Rec = {
            let mut a = <$std>::new(init);
            let mut rec: Rec = vec![];
            run_int!(@body $t, a, ops, rec);
            rec.push((9, a.into_inner() as u64));
            rec
        };
        let out = std::sync::Arc::new(std::sync::Mutex::new(Rec::new()));
        let out2 = out.clone();
        let ops2 = case.ops.clone();
        let mut b = loom::model::Builder::new();
        b.max_branches = 100_000;
        b.checkpoint_file = None;
        b.max_permutations = None;
        b.preemption_bound = None;
        b.max_duration = None;
        let r = std::panic::catch_unwind(std::panic::AssertUnwindSafe(|| {
            b.check(move || {
                let ops = ops2.clone();
                let mut a = <$loom>::new(init);
                let mut rec: Rec = vec![];
                run_int!(@body $t, a, ops, rec);
                rec.push((9, a.into_inner() as u64));
                *out2.lock().unwrap() = rec;
            })
        }));
        let loom_rec = out.lock().unwrap().clone();
        (std_rec, loom_rec, r.err().map(crate::interp::panic_msg))
    }};
    (@body $t:ty, $a:ident, $ops:ident, $rec:ident) => {{
        #[allow(deprecated)]
        for op in $ops.iter() {
            match *op {
                AOp::Load(o) => $rec.push((0, $a.load(ord(o)) as u64)),
                AOp::Store(v, o) => {
                    $a.store(v as $t, ord(o));
                    $rec.push((0, 0));
                }
                AOp::Swap(v, o) => $rec.push((0, $a.swap(v as $t, ord(o)) as u64)),
                AOp::Cas { e, n, s, f, weak } => {
                    let r = if weak {
                        // std's weak CAS may fail spuriously; loom's is documented strong. Compare
                        // against the strong std operation (the spurious failure is not a value).
                        $a.compare_exchange(e as $t, n as $t, ord(s), ord(f))
                    } else {
                        $a.compare_exchange(e as $t, n as $t, ord(s), ord(f))
                    };
                    match r {
                        Ok(v) => $rec.push((1, v as u64)),
                        Err(v) => $rec.push((2, v as u64)),
                    }
                }
                AOp::CasCur { n, s, f, weak: _ } => {
                    let cur = $a.load(O::Relaxed);
                    match $a.compare_exchange(cur, n as $t, ord(s), ord(f)) {
                        Ok(v) => $rec.push((1, v as u64)),
                        Err(v) => $rec.push((2, v as u64)),
                    }
                }
                AOp::CompareAndSwap { e, n, o } => $rec.push((0, $a.compare_and_swap(e as $t, n as $t, ord(o)) as u64)),
                AOp::Add(v, o) => $rec.push((0, $a.fetch_add(v as $t, ord(o)) as u64)),
                AOp::Sub(v, o) => $rec.push((0, $a.fetch_sub(v as $t, ord(o)) as u64)),
                AOp::And(v, o) => $rec.push((0, $a.fetch_and(v as $t, ord(o)) as u64)),
                AOp::Nand(v, o) => $rec.push((0, $a.fetch_nand(v as $t, ord(o)) as u64)),
                AOp::Or(v, o) => $rec.push((0, $a.fetch_or(v as $t, ord(o)) as u64)),
                AOp::Xor(v, o) => $rec.push((0, $a.fetch_xor(v as $t, ord(o)) as u64)),
                AOp::Max(v, o) => $rec.push((0, $a.fetch_max(v as $t, ord(o)) as u64)),
                AOp::Min(v, o) => $rec.push((0, $a.fetch_min(v as $t, ord(o)) as u64)),
                AOp::FetchUpdate { kind, v, set, fetch } => {
                    let r = $a.fetch_update(ord(set), ord(fetch), |x: $t| match kind {
                        FuKind::AddOne => Some(x.wrapping_add(1)),
                        FuKind::NoneIfEven => if x & 1 == 0 { None } else { Some(x.wrapping_sub(1)) },
                        FuKind::Not => Some(!x),
                        FuKind::Halve => Some(x / 2),
                        FuKind::NoneAlways => None,
                        FuKind::Const => Some(v as $t),
                    });
                    match r {
                        Ok(v) => $rec.push((1, v as u64)),
                        Err(v) => $rec.push((2, v as u64)),
                    }
                }
                AOp::WithMut(v) => {
                    let r = run_int!(@with_mut $a, |p: &mut $t| { *p = (!*p).wrapping_add(v as $t); *p });
                    $rec.push((0, r as u64));
                }
                AOp::WithMutPanic(v) => {
                    let r = std::panic::catch_unwind(std::panic::AssertUnwindSafe(|| {
                        run_int!(@with_mut $a, |p: &mut $t| {
                            *p = (*p).wrapping_add(v as $t) ^ 1;
                            panic!("injected failure (inside with_mut)")
                        })
                    }));
                    $rec.push((3, r.is_err() as u64));
                }
                AOp::UnsyncLoad => $rec.push((0, run_int!(@unsync $a) as u64)),
            }
        }
    }};
    (@with_mut $a:ident, $f:expr) => {{
        // loom: with_mut(&mut self, f); std: get_mut()
        WithMutCompat::with_mut_compat(&mut $a, $f)
    }};
    (@unsync $a:ident) => {{
        WithMutCompat::unsync_compat(&$a)
    }};
}

trait WithMutCompat<T> {
    fn with_mut_compat(&mut self, f: impl FnOnce(&mut T) -> T) -> T;
    fn unsync_compat(&self) -> T;
}

macro_rules! compat {
    ($t:ty, $loom:ty, $std:ty) => {
        impl WithMutCompat<$t> for $loom {
            fn with_mut_compat(&mut self, f: impl FnOnce(&mut $t) -> $t) -> $t {
                self.with_mut(f)
            }
            fn unsync_compat(&self) -> $t {
                unsafe { self.unsync_load() }
            }
        }
        impl WithMutCompat<$t> for $std {
            fn with_mut_compat(&mut self, f: impl FnOnce(&mut $t) -> $t) -> $t {
                f(self.get_mut())
            }
            fn unsync_compat(&self) -> $t {
                self.load(O::Relaxed)
            }
        }
    };
}

compat!(u8, loom::sync::atomic::AtomicU8, std::sync::atomic::AtomicU8);
compat!(u16, loom::sync::atomic::AtomicU16, std::sync::atomic::AtomicU16);
compat!(u32, loom::sync::atomic::AtomicU32, std::sync::atomic::AtomicU32);
compat!(u64, loom::sync::atomic::AtomicU64, std::sync::atomic::AtomicU64);
compat!(usize, loom::sync::atomic::AtomicUsize, std::sync::atomic::AtomicUsize);
compat!(i8, loom::sync::atomic::AtomicI8, std::sync::atomic::AtomicI8);
compat!(i16, loom::sync::atomic::AtomicI16, std::sync::atomic::AtomicI16);
compat!(i32, loom::sync::atomic::AtomicI32, std::sync::atomic::AtomicI32);
compat!(i64, loom::sync::atomic::AtomicI64, std::sync::atomic::AtomicI64);
compat!(isize, loom::sync::atomic::AtomicIsize, std::sync::atomic::AtomicIsize);

fn run_bool(case: &AtomCase) -> (Rec, Rec, Option<String>) {
    fn body_std(ops: &[AOp], init: bool) -> Rec {
        let mut a = std::sync::atomic::AtomicBool::new(init);
        let mut rec = vec![];
        bool_body!(a, ops, rec, |a: &mut std::sync::atomic::AtomicBool, v: u64| {
            let p = a.get_mut();
            *p = !*p ^ (v & 1 == 1);
            *p
        }, |a: &std::sync::atomic::AtomicBool| a.load(O::Relaxed));
        rec.push((9, a.into_inner() as u64));
        rec
    }
    let init = case.init & 1 == 1;
    let std_rec = body_std(&case.ops, init);
    let out = std::sync::Arc::new(std::sync::Mutex::new(Rec::new()));
    let out2 = out.clone();
    let ops2 = case.ops.clone();
    let mut b = loom::model::Builder::new();
    b.max_branches = 100_000;
    b.checkpoint_file = None;
    b.max_permutations = None;
    b.preemption_bound = None;
    b.max_duration = None;
    let r = std::panic::catch_unwind(std::panic::AssertUnwindSafe(|| {
        b.check(move || {
            let ops = ops2.clone();
            let mut a = loom::sync::atomic::AtomicBool::new(init);
            let mut rec: Rec = vec![];
            bool_body!(a, ops, rec, |a: &mut loom::sync::atomic::AtomicBool, v: u64| {
                // loom's AtomicBool has no with_mut: emulate through store (keeps sequences aligned)
                let cur = unsafe { a.unsync_load() };
                let nv = !cur ^ (v & 1 == 1);
                a.store(nv, O::Relaxed);
                nv
            }, |a: &loom::sync::atomic::AtomicBool| unsafe { a.unsync_load() });
            rec.push((9, a.into_inner() as u64));
            *out2.lock().unwrap() = rec;
        })
    }));
    let loom_rec = out.lock().unwrap().clone();
    (std_rec, loom_rec, r.err().map(crate::interp::panic_msg))
}

macro_rules! bool_body {
    ($a:ident, $ops:ident, $rec:ident, $wm:expr, $ul:expr) => {{
        #[allow(deprecated)]
        for op in $ops.iter() {
            match *op {
                AOp::Load(o) => $rec.push((0, $a.load(ord(o)) as u64)),
                AOp::Store(v, o) => {
                    $a.store(v & 1 == 1, ord(o));
                    $rec.push((0, 0));
                }
                AOp::Swap(v, o) => $rec.push((0, $a.swap(v & 1 == 1, ord(o)) as u64)),
                AOp::Cas { e, n, s, f, .. } => match $a.compare_exchange(e & 1 == 1, n & 1 == 1, ord(s), ord(f)) {
                    Ok(v) => $rec.push((1, v as u64)),
                    Err(v) => $rec.push((2, v as u64)),
                },
                AOp::CasCur { n, s, f, .. } => {
                    let cur = $a.load(O::Relaxed);
                    match $a.compare_exchange(cur, n & 1 == 1, ord(s), ord(f)) {
                        Ok(v) => $rec.push((1, v as u64)),
                        Err(v) => $rec.push((2, v as u64)),
                    }
                }
                AOp::CompareAndSwap { e, n, o } => $rec.push((0, $a.compare_and_swap(e & 1 == 1, n & 1 == 1, ord(o)) as u64)),
                AOp::And(v, o) => $rec.push((0, $a.fetch_and(v & 1 == 1, ord(o)) as u64)),
                AOp::Nand(v, o) => $rec.push((0, $a.fetch_nand(v & 1 == 1, ord(o)) as u64)),
                AOp::Or(v, o) => $rec.push((0, $a.fetch_or(v & 1 == 1, ord(o)) as u64)),
                AOp::Xor(v, o) => $rec.push((0, $a.fetch_xor(v & 1 == 1, ord(o)) as u64)),
                AOp::FetchUpdate { kind, v, set, fetch } => {
                    let r = $a.fetch_update(ord(set), ord(fetch), |x: bool| match kind {
                        FuKind::AddOne | FuKind::Not => Some(!x),
                        FuKind::NoneIfEven => if !x { None } else { Some(false) },
                        FuKind::Halve => Some(false),
                        FuKind::NoneAlways => None,
                        FuKind::Const => Some(v & 1 == 1),
                    });
                    match r {
                        Ok(v) => $rec.push((1, v as u64)),
                        Err(v) => $rec.push((2, v as u64)),
                    }
                }
                AOp::WithMut(v) => {
                    let f = $wm;
                    $rec.push((0, f(&mut $a, v) as u64));
                }
                AOp::UnsyncLoad => {
                    let f = $ul;
                    $rec.push((0, f(&$a) as u64));
                }
                // arithmetic / min / max do not exist on AtomicBool
                AOp::Add(..) | AOp::Sub(..) | AOp::Max(..) | AOp::Min(..) | AOp::WithMutPanic(..) => $rec.push((0, 0)),
            }
        }
    }};
}
use bool_body;

fn run_ptr(case: &AtomCase) -> (Rec, Rec, Option<String>) {
    macro_rules! ptr_body {
        ($a:ident, $ops:ident, $rec:ident, $wm:expr, $ul:expr) => {{
            #[allow(deprecated)]
            for op in $ops.iter() {
                let p = |v: u64| v as usize as *mut u32;
                match *op {
                    AOp::Load(o) => $rec.push((0, $a.load(ord(o)) as usize as u64)),
                    AOp::Store(v, o) => {
                        $a.store(p(v), ord(o));
                        $rec.push((0, 0));
                    }
                    AOp::Swap(v, o) => $rec.push((0, $a.swap(p(v), ord(o)) as usize as u64)),
                    AOp::Cas { e, n, s, f, .. } => match $a.compare_exchange(p(e), p(n), ord(s), ord(f)) {
                        Ok(v) => $rec.push((1, v as usize as u64)),
                        Err(v) => $rec.push((2, v as usize as u64)),
                    },
                    AOp::CasCur { n, s, f, .. } => {
                        let cur = $a.load(O::Relaxed);
                        match $a.compare_exchange(cur, p(n), ord(s), ord(f)) {
                            Ok(v) => $rec.push((1, v as usize as u64)),
                            Err(v) => $rec.push((2, v as usize as u64)),
                        }
                    }
                    AOp::CompareAndSwap { e, n, o } => $rec.push((0, $a.compare_and_swap(p(e), p(n), ord(o)) as usize as u64)),
                    AOp::FetchUpdate { kind, v, set, fetch } => {
                        let r = $a.fetch_update(ord(set), ord(fetch), |x: *mut u32| match kind {
                            FuKind::AddOne => Some((x as usize).wrapping_add(1) as *mut u32),
                            FuKind::NoneIfEven => if (x as usize) & 1 == 0 { None } else { Some((x as usize - 1) as *mut u32) },
                            FuKind::Not => Some(!(x as usize) as *mut u32),
                            FuKind::Halve => Some(((x as usize) / 2) as *mut u32),
                            FuKind::NoneAlways => None,
                            FuKind::Const => Some(v as usize as *mut u32),
                        });
                        match r {
                            Ok(v) => $rec.push((1, v as usize as u64)),
                            Err(v) => $rec.push((2, v as usize as u64)),
                        }
                    }
                    AOp::WithMut(v) => {
                        let f = $wm;
                        $rec.push((0, f(&mut $a, v) as usize as u64));
                    }
                    AOp::UnsyncLoad => {
                        let f = $ul;
                        $rec.push((0, f(&$a) as usize as u64));
                    }
                    _ => $rec.push((0, 0)),
                }
            }
        }};
    }
    let init = case.init as usize as *mut u32;
    let ops = case.ops.clone();
    let std_rec = {
        let mut a = std::sync::atomic::AtomicPtr::<u32>::new(init);
        let mut rec: Rec = vec![];
        ptr_body!(a, ops, rec, |a: &mut std::sync::atomic::AtomicPtr<u32>, v: u64| {
            let p = a.get_mut();
            *p = (!(*p as usize)).wrapping_add(v as usize) as *mut u32;
            *p
        }, |a: &std::sync::atomic::AtomicPtr<u32>| a.load(O::Relaxed));
        rec.push((9, a.into_inner() as usize as u64));
        rec
    };
    let out = std::sync::Arc::new(std::sync::Mutex::new(Rec::new()));
    let out2 = out.clone();
    let ops2 = case.ops.clone();
    let init_u = case.init as usize;
    let mut b = loom::model::Builder::new();
    b.max_branches = 100_000;
    b.checkpoint_file = None;
    b.max_permutations = None;
    b.preemption_bound = None;
    b.max_duration = None;
    let r = std::panic::catch_unwind(std::panic::AssertUnwindSafe(|| {
        b.check(move || {
            let ops = ops2.clone();
            let mut a = loom::sync::atomic::AtomicPtr::<u32>::new(init_u as *mut u32);
            let mut rec: Rec = vec![];
            ptr_body!(a, ops, rec, |a: &mut loom::sync::atomic::AtomicPtr<u32>, v: u64| {
                a.with_mut(|p| {
                    *p = (!(*p as usize)).wrapping_add(v as usize) as *mut u32;
                    *p
                })
            }, |a: &loom::sync::atomic::AtomicPtr<u32>| unsafe { a.unsync_load() });
            rec.push((9, a.into_inner() as usize as u64));
            *out2.lock().unwrap() = rec;
        })
    }));
    let loom_rec = out.lock().unwrap().clone();
    (std_rec, loom_rec, r.err().map(crate::interp::panic_msg))
}

fn run_case(case: &AtomCase) -> (Rec, Rec, Option<String>) {
    match case.ty.as_str() {
        "u8" => run_int!(u8, loom::sync::atomic::AtomicU8, std::sync::atomic::AtomicU8, case),
        "u16" => run_int!(u16, loom::sync::atomic::AtomicU16, std::sync::atomic::AtomicU16, case),
        "u32" => run_int!(u32, loom::sync::atomic::AtomicU32, std::sync::atomic::AtomicU32, case),
        "u64" => run_int!(u64, loom::sync::atomic::AtomicU64, std::sync::atomic::AtomicU64, case),
        "usize" => run_int!(usize, loom::sync::atomic::AtomicUsize, std::sync::atomic::AtomicUsize, case),
        "i8" => run_int!(i8, loom::sync::atomic::AtomicI8, std::sync::atomic::AtomicI8, case),
        "i16" => run_int!(i16, loom::sync::atomic::AtomicI16, std::sync::atomic::AtomicI16, case),
        "i32" => run_int!(i32, loom::sync::atomic::AtomicI32, std::sync::atomic::AtomicI32, case),
        "i64" => run_int!(i64, loom::sync::atomic::AtomicI64, std::sync::atomic::AtomicI64, case),
        "isize" => run_int!(isize, loom::sync::atomic::AtomicIsize, std::sync::atomic::AtomicIsize, case),
        "bool" => run_bool(case),
        "ptr" => run_ptr(case),
        other => panic!("unknown atomic type {}", other),
    }
}

/// Non-triviality: an RMW whose mathematical result leaves the type's range, a
/// CAS on a value with the sign bit set, or min/max across the sign boundary.
fn nontrivial(case: &AtomCase, std_rec: &Rec) -> (bool, Vec<String>) {
    let bits = bits_of(&case.ty);
    let mask: u128 = if bits >= 64 { u64::MAX as u128 } else { (1u128 << bits) - 1 };
    let sign: u64 = 1u64 << (bits.max(1) - 1);
    let m = |v: u64| (v as u128 & mask) as u64;
    let mut labels = vec![];
    let mut nt = false;
    for (i, op) in case.ops.iter().enumerate() {
        let before = std_rec.get(i).map(|r| m(r.1)).unwrap_or(0);
        match *op {
            AOp::Add(v, _) => {
                if (before as u128 + m(v) as u128) > mask {
                    nt = true;
                    labels.push("add_overflow".into());
                }
            }
            AOp::Sub(v, _) => {
                if m(v) > before {
                    nt = true;
                    labels.push("sub_underflow".into());
                }
            }
            AOp::Max(v, _) | AOp::Min(v, _) => {
                if (before & sign != 0) != (m(v) & sign != 0) {
                    nt = true;
                    labels.push("minmax_across_sign".into());
                }
            }
            AOp::Cas { e, .. } | AOp::CompareAndSwap { e, .. } => {
                if m(e) & sign != 0 && bits > 1 {
                    nt = true;
                    labels.push("cas_signbit".into());
                }
            }
            AOp::CasCur { .. } => {
                if before & sign != 0 && bits > 1 {
                    nt = true;
                    labels.push("cas_success_signbit".into());
                }
            }
            _ => {}
        }
    }
    let stores = case
        .ops
        .iter()
        .filter(|o| !matches!(o, AOp::Load(_) | AOp::UnsyncLoad | AOp::WithMut(_)))
        .count();
    if stores >= 7 && case.ops.iter().any(|o| matches!(o, AOp::UnsyncLoad | AOp::WithMut(_))) {
        labels.push("history_wrapped_then_unsync".into());
        nt = true;
    }
    labels.sort();
    labels.dedup();
    (nt, labels)
}

pub fn eval(case: &Case) -> Verdict {
    let mut v = Verdict::pass();
    if case.family == "exh8" {
        return eval_exh8(case);
    }
    let ac = match &case.x.atom {
        Some(a) => a,
        None => return Verdict::skip("no atom case"),
    };
    let (s, l, panic) = run_case(ac);
    v.loom_iters = 1;
    v.label(&format!("ty_{}", ac.ty));
    let (nt, labels) = nontrivial(ac, &s);
    v.nontrivial = nt;
    for lb in labels {
        v.labels.push(lb);
    }
    if let Some(pm) = panic {
        return v.fail("loom_panic", format!("loom panicked on a single-threaded sequence: {}", pm));
    }
    if s != l {
        let idx = s.iter().zip(l.iter()).position(|(a, b)| a != b).unwrap_or(s.len().min(l.len()));
        let what = if idx < ac.ops.len() { format!("{:?}", ac.ops[idx]) } else { "into_inner (final content)".to_string() };
        v.detail = serde_json::json!({"std": format!("{:x?}", s), "loom": format!("{:x?}", l), "first_difference_at": idx});
        return v.fail(
            "value_mismatch",
            format!(
                "Atomic<{}> step {} {}: std returned {:x?}, loom returned {:x?}",
                ac.ty,
                idx,
                what,
                s.get(idx),
                l.get(idx)
            ),
        );
    }
    v
}

fn eval_exh8(case: &Case) -> Verdict {
    let ty = case.x.mode.clone().unwrap_or_default();
    let opk = case.x.n.unwrap_or(0);
    let chunk = case.x.k.unwrap_or(0) as u64;
    let mut v = Verdict::pass();
    v.nontrivial = true;
    v.label("exhaustive8");
    // for 32 current values, all 256 operands
    for cur in chunk * 32..chunk * 32 + 32 {
        let mut ops = vec![];
        for operand in 0..256u64 {
            ops.push(AOp::Store(cur, 0));
            ops.push(match opk {
                0 => AOp::Add(operand, 4),
                1 => AOp::Sub(operand, 4),
                2 => AOp::And(operand, 4),
                3 => AOp::Nand(operand, 4),
                4 => AOp::Or(operand, 4),
                5 => AOp::Xor(operand, 4),
                6 => AOp::Max(operand, 4),
                7 => AOp::Min(operand, 4),
                _ => AOp::Cas { e: operand, n: !operand & 0xff, s: 4, f: 4, weak: false },
            });
            ops.push(AOp::Load(0));
        }
        let ac = AtomCase { ty: ty.clone(), init: 0, ops };
        let (s, l, panic) = run_case(&ac);
        v.loom_iters += 1;
        if let Some(pm) = panic {
            return v.fail("loom_panic", format!("loom panicked: {}", pm));
        }
        if s != l {
            let idx = s.iter().zip(l.iter()).position(|(a, b)| a != b).unwrap_or(0);
            return v.fail(
                "value_mismatch",
                format!("Atomic<{}> current={} op#{} operand={}: std {:x?} loom {:x?}", ty, cur, opk, idx / 3, s.get(idx), l.get(idx)),
            );
        }
    }
    v
}
