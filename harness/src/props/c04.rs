//! C04: data races on unsynchronised memory are reported exactly.
//!
//! Two disjoint kinds of generated programs:
//!  * atomic-synchronised (flags + awaits + fences + RMW release sequences + spawn/join hops):
//!    decided by R-AX (`race_must` = racy under the strongest reading, `race_may` = racy under
//!    the weakest reading);
//!  * primitive-synchronised (locks, channels, condvar, park, Notify, join): decided by R-SC
//!    with vector clocks (`hb_max` / `hb_min`), through `sc::eval`.

use crate::case::*;
use crate::dsl::*;
use crate::gen::{self, Src};
use crate::props::sc;
use crate::{interp, refax};

const LO: [MO; 3] = [MO::Acq, MO::Rlx, MO::Sc];
const SO: [MO; 3] = [MO::Rel, MO::Rlx, MO::Sc];
const RO: [MO; 5] = [MO::AcqRel, MO::Rlx, MO::Acq, MO::Rel, MO::Sc];

fn na(s: &mut Src, c: u8, want_write: bool) -> Op {
    if want_write || s.chance(1, 3) {
        Op::CellWrite { c }
    } else {
        Op::CellRead { c }
    }
}

/// A cell handed over through 1-2 hops of flags; every publish is {release store | release-ish fence
/// + relaxed store | relaxed store}, every consume {acquire await | relaxed await + acquire-ish
/// fence | relaxed await}; a middle thread may use one AcqRel / SeqCst fence for both directions.
pub fn race_chain(s: &mut Src) -> Program {
    let hops = s.range(1, 2);
    let rel_f = [MO::Rel, MO::AcqRel, MO::Sc];
    let acq_f = [MO::Acq, MO::AcqRel, MO::Sc];
    let publish = |s: &mut Src, ops: &mut Vec<Op>, flag: u8, fenced: bool| match s.pick(4) {
        0 => ops.push(Op::Store { a: flag, v: 1, o: s.of(&[MO::Rel, MO::Sc]) }),
        1 | 2 => {
            if !fenced {
                ops.push(Op::Fence { o: s.of(&rel_f) });
            }
            ops.push(Op::Store { a: flag, v: 1, o: MO::Rlx });
        }
        _ => ops.push(Op::Store { a: flag, v: 1, o: MO::Rlx }),
    };
    let consume = |s: &mut Src, ops: &mut Vec<Op>, flag: u8| -> bool {
        let spin = s.chance(1, 2);
        match s.pick(4) {
            0 => {
                ops.push(Op::Await { a: flag, v: 1, o: s.of(&[MO::Acq, MO::Sc]), spin });
                false
            }
            1 | 2 => {
                ops.push(Op::Await { a: flag, v: 1, o: MO::Rlx, spin });
                let f = s.of(&acq_f);
                ops.push(Op::Fence { o: f });
                f != MO::Acq
            }
            _ => {
                ops.push(Op::Await { a: flag, v: 1, o: MO::Rlx, spin });
                false
            }
        }
    };
    let mut threads: Vec<Vec<Op>> = vec![vec![]];
    let mut t = vec![Op::CellWrite { c: 0 }];
    publish(s, &mut t, 0, false);
    threads.push(t);
    for h in 1..hops {
        let mut t = vec![];
        let fenced = consume(s, &mut t, (h - 1) as u8);
        publish(s, &mut t, h as u8, fenced);
        threads.push(t);
    }
    let mut t = vec![];
    consume(s, &mut t, (hops - 1) as u8);
    t.push(na(s, 0, false));
    threads.push(t);
    let n = threads.len();
    let mut main: Vec<Op> = (1..n).map(|t| Op::Spawn { t: t as u8 }).collect();
    if s.chance(1, 3) {
        for t in 1..n {
            main.push(Op::Join { t: t as u8 });
        }
        main.push(Op::CellRead { c: 0 });
    }
    threads[0] = main;
    Program { threads, rx_owner: 0, arc_owner: vec![] }
}

/// Atomic-synchronised race programs.
pub fn race_prog(s: &mut Src) -> Program {
    if s.chance(1, 4) {
        return race_chain(s);
    }
    let mut threads: Vec<Vec<Op>>;
    let shape = s.pick(8);
    match shape {
        // message passing, optional fences on either side, optional observer thread
        0 | 1 | 2 => {
            let so = s.of(&SO);
            let lo = s.of(&LO);
            let mut w = vec![Op::CellWrite { c: 0 }];
            if s.chance(1, 3) {
                w.push(Op::Fence { o: s.of(&[MO::Rel, MO::AcqRel, MO::Acq]) });
            }
            w.push(Op::Store { a: 0, v: 1, o: so });
            if s.chance(1, 6) {
                w.push(Op::CellWrite { c: 0 }); // write after publishing: racy by construction
            }
            let mut r = vec![Op::Await { a: 0, v: 1, o: lo, spin: s.chance(1, 2) }];
            if s.chance(1, 4) {
                // a compare_exchange that fails (the expected value is never stored): it
                // synchronises with its *failure* ordering only
                r.push(Op::Cas { a: 0, e: 5, n: 6, s: s.of(&[MO::Acq, MO::AcqRel, MO::Sc, MO::Rlx, MO::Rel]), f: s.of(&[MO::Rlx, MO::Rlx, MO::Acq, MO::Sc]) });
            }
            if s.chance(1, 3) {
                r.push(Op::Fence { o: s.of(&[MO::Acq, MO::AcqRel, MO::Rel]) });
            }
            r.push(na(s, 0, false));
            threads = vec![vec![], w, r];
            if s.chance(1, 4) {
                // observer: reads the flag and fences, never touches the cell
                let mut o = vec![Op::Load { a: 0, o: s.of(&LO) }];
                if s.chance(1, 2) {
                    o.push(Op::Fence { o: s.of(&[MO::Acq, MO::AcqRel]) });
                }
                o.push(Op::Load { a: 0, o: s.of(&LO) });
                threads.push(o);
            }
            if s.chance(1, 3) {
                // roles: reader in main
                let r = std::mem::take(&mut threads[2]);
                threads[0] = r;
                threads.remove(2);
            }
        }
        // second hop through spawn: main awaits, then spawns the reader
        3 => {
            let so = s.of(&SO);
            let lo = s.of(&LO);
            let w = vec![Op::CellWrite { c: 0 }, Op::Store { a: 0, v: 1, o: so }];
            let r = vec![na(s, 0, false)];
            let main = vec![Op::Spawn { t: 1 }, Op::Await { a: 0, v: 1, o: lo, spin: false }, Op::Spawn { t: 2 }];
            return Program { threads: vec![main, w, r], rx_owner: 0, arc_owner: vec![] };
        }
        // join hop: main joins the writer (or not) before reading / spawning the reader
        4 => {
            let w = vec![Op::CellWrite { c: 0 }, Op::Store { a: 0, v: 1, o: s.of(&SO) }];
            let mut main = vec![Op::Spawn { t: 1 }];
            let joined = s.chance(2, 3);
            if joined {
                main.push(Op::Join { t: 1 });
            } else {
                main.push(Op::Load { a: 0, o: s.of(&LO) });
            }
            let mut threads = vec![vec![], w];
            if s.chance(1, 2) {
                main.push(na(s, 0, false));
            } else {
                main.push(Op::Spawn { t: 2 });
                threads.push(vec![na(s, 0, false)]);
                if !joined && s.chance(1, 2) {
                    main.push(Op::Join { t: 1 });
                }
            }
            threads[0] = main;
            return Program { threads, rx_owner: 0, arc_owner: vec![] };
        }
        // release sequence through RMWs (RMW-only location)
        5 => {
            let w = vec![Op::CellWrite { c: 0 }, Op::FetchAdd { a: 0, v: 1, o: s.of(&RO) }];
            let m = vec![Op::FetchAdd { a: 0, v: 1, o: s.of(&RO) }];
            let r = vec![Op::Await { a: 0, v: 2, o: s.of(&LO), spin: false }, na(s, 0, false)];
            threads = vec![vec![], w, m, r];
        }
        // non-atomic accesses to the atomic itself (with_mut / unsync_load) against atomic accesses
        6 => {
            let acc = if s.chance(1, 2) { Op::AtomWithMut { a: 0 } } else { Op::AtomUnsyncLoad { a: 0 } };
            let other = match s.pick(3) {
                0 => Op::Load { a: 0, o: s.of(&LO) },
                1 => Op::Store { a: 0, v: 1, o: s.of(&SO) },
                _ => Op::FetchAdd { a: 0, v: 1, o: s.of(&RO) },
            };
            let mut main = vec![Op::Spawn { t: 1 }];
            let mut t1 = vec![other];
            match s.pick(4) {
                // ordered by join
                0 | 1 => {
                    main.push(Op::Join { t: 1 });
                    main.push(acc);
                }
                // ordered before the spawn
                2 => {
                    main.insert(0, acc);
                }
                // concurrent: racy (with_mut vs anything, unsync_load vs store/rmw)
                _ => {
                    main.push(acc);
                    if s.chance(1, 2) {
                        t1.push(Op::Load { a: 0, o: MO::Rlx });
                    }
                }
            }
            return Program { threads: vec![main, t1], rx_owner: 0, arc_owner: vec![] };
        }
        // two flags, two cells: reader awaits one flag and reads both cells
        _ => {
            let so0 = s.of(&SO);
            let so1 = s.of(&SO);
            let w = vec![Op::CellWrite { c: 0 }, Op::Store { a: 0, v: 1, o: so0 }, Op::CellWrite { c: 1 }, Op::Store { a: 1, v: 1, o: so1 }];
            let which = s.pick(2) as u8;
            let mut r = vec![Op::Await { a: which, v: 1, o: s.of(&LO), spin: s.chance(1, 2) }];
            r.push(Op::CellRead { c: 0 });
            if s.chance(1, 2) {
                r.push(Op::CellRead { c: 1 });
            }
            threads = vec![vec![], w, r];
        }
    }
    // spawn everything from main (main's own ops after the spawns), optional joins + final access
    let n = threads.len();
    let mut main: Vec<Op> = (1..n).map(|t| Op::Spawn { t: t as u8 }).collect();
    main.extend(std::mem::take(&mut threads[0]));
    if s.chance(1, 3) {
        for t in 1..n {
            main.push(Op::Join { t: t as u8 });
        }
        if s.chance(1, 2) {
            main.push(Op::CellRead { c: 0 });
        }
    }
    threads[0] = main;
    Program { threads, rx_owner: 0, arc_owner: vec![] }
}

pub fn build(draws: &[u16], tier: Tier) -> Case {
    let mut s = Src::new(draws);
    let (family, prog) = match s.pick(9) {
        0 | 1 | 2 | 3 => ("atomic-sync", race_prog(&mut s)),
        4 => ("lock-handover", gen::lock_handover(&mut s)),
        5 => ("wait-handover", gen::wait_shape(&mut s)),
        6 => ("chan-handover", gen::chan_handover(&mut s)),
        8 => (
            "sync+probes",
            gen::sync_prog(
                &mut s,
                &gen::SyncParams { mutex: true, channel: true, notify: true, park: true, unpark_any: true, probes: true, ordered_locks: true, max_threads: 3, max_ops: 8, joins: true, ..Default::default() },
            ),
        ),
        _ => (
            "sync-random",
            gen::sync_prog(
                &mut s,
                &gen::SyncParams { mutex: true, rwlock: true, channel: true, cells: true, ordered_locks: true, max_threads: 3, max_ops: 7, joins: true, ..Default::default() },
            ),
        ),
    };
    let mut c = Case::new("C04", family, prog);
    c.cfg.max_permutations = Some(tier.iter_cap());
    c.cfg.max_branches = 5000;
    c
}

fn conflicting_na(p: &Program) -> bool {
    // two threads touch the same location, at least one access is non-atomic and at least one writes
    let mut acc: Vec<(usize, (u8, u8), bool, bool)> = vec![];
    for (t, _, op) in p.ops() {
        match op {
            Op::CellRead { c } => acc.push((t, (0, *c), false, true)),
            Op::CellWrite { c } => acc.push((t, (0, *c), true, true)),
            Op::AtomWithMut { a } => acc.push((t, (1, *a), true, true)),
            Op::AtomUnsyncLoad { a } => acc.push((t, (1, *a), false, true)),
            Op::Store { a, .. } | Op::Swap { a, .. } | Op::FetchAdd { a, .. } | Op::Cas { a, .. } => acc.push((t, (1, *a), true, false)),
            Op::Load { a, .. } | Op::Await { a, .. } => acc.push((t, (1, *a), false, false)),
            _ => {}
        }
    }
    for i in 0..acc.len() {
        for j in 0..acc.len() {
            if acc[i].0 != acc[j].0 && acc[i].1 == acc[j].1 && (acc[i].2 || acc[j].2) && (acc[i].3 || acc[j].3) {
                return true;
            }
        }
    }
    false
}

pub fn eval(case: &Case) -> Verdict {
    let p = &case.prog;
    if !refax::supports(p) {
        let mut v = sc::eval(case);
        v.nontrivial = conflicting_na(p) && !matches!(v.status, Status::Skip { .. });
        return v;
    }
    let mut v = Verdict::pass();
    if let Err(e) = p.well_formed() {
        return Verdict::skip(&format!("ill-formed: {}", e));
    }
    let br = refax::bracket(p, 30_000_000);
    if br.a.truncated || br.u.truncated {
        return Verdict::skip("reference budget");
    }
    v.ref_states = (br.a.execs + br.u.execs) as u64;
    let must = br.a.racy;
    let may = br.u.racy;
    if must && !may {
        return Verdict::skip("ORACLE-BUG: racy under the strong reading but not under the weak one");
    }
    let run = interp::collect(p, &case.cfg, false);
    v.loom_iters = run.report.iters as u64;
    if run.report.capped {
        return Verdict::skip("capped");
    }
    v.label(&format!("threads{}", p.n_threads()));
    v.label(if must { "race_must" } else if may { "race_may_only" } else { "race_free" });
    for (name, f) in [
        ("await", (|o: &Op| matches!(o, Op::Await { .. })) as fn(&Op) -> bool),
        ("fence", |o| matches!(o, Op::Fence { .. })),
        ("rmw", |o| matches!(o, Op::FetchAdd { .. } | Op::Swap { .. } | Op::Cas { .. })),
        ("with_mut", |o| matches!(o, Op::AtomWithMut { .. })),
        ("unsync_load", |o| matches!(o, Op::AtomUnsyncLoad { .. })),
        ("join", |o| matches!(o, Op::Join { .. })),
    ] {
        if p.has(f) {
            v.label(name);
        }
    }
    v.nontrivial = conflicting_na(p);
    v.detail = serde_json::json!({"race_must": must, "race_may": may, "loom": {"iterations": run.report.iters, "panic": run.report.panic}});
    match &run.report.panic {
        Some(msg) => {
            let k = sc::panic_kind(msg);
            if k != "race" {
                return v.fail("unexpected_panic", format!("model run panicked with `{}`", msg));
            }
            if !may {
                return v.fail(
                    "false_race",
                    format!("loom reported `{}` but in every RC11-consistent execution (even with the weakest admissible synchronisation) all conflicting accesses are ordered by happens-before", msg),
                );
            }
        }
        None => {
            if must {
                return v.fail(
                    "missed_race",
                    format!("the model run completed ({} iterations) although some RC11-consistent execution has two conflicting accesses unordered by happens-before", run.report.iters),
                );
            }
        }
    }
    v
}
