//! C19: exploration controls (`stop_exploring` / `explore` / `skip_branch` /
//! `expect_explicit_explore`) and limits (`max_branches`, `max_threads`, `max_permutations`,
//! `max_duration`) behave as documented.

use crate::case::*;
use crate::dsl::*;
use crate::gen::{self, Src, SyncParams};
use crate::props::sc;
use crate::{interp, refsc};
use loom::verif::{Branch, Phase};
use std::collections::BTreeSet;
use std::sync::{Arc, Mutex};

const SC: MO = MO::Sc;

/// One phase: main and one spawned thread race on a location of their own, then main joins.
/// Returns (ops of main, ops of the child, number of results main produces).
fn phase(s: &mut Src, loc: u8, child: u8) -> (Vec<Op>, Vec<Op>, usize) {
    let mk = |s: &mut Src, base: u8, n: usize| -> Vec<Op> {
        (0..n)
            .map(|i| match s.pick(4) {
                0 | 1 => Op::Load { a: loc, o: SC },
                2 => Op::Store { a: loc, v: base + i as u8, o: SC },
                _ => Op::FetchAdd { a: loc, v: 1, o: SC },
            })
            .collect()
    };
    let nm = s.range(1, 2);
    let nc = s.range(1, 2);
    let mut m = vec![Op::Spawn { t: child }];
    let body = mk(s, 10, nm);
    let nres = body.iter().filter(|o| !matches!(o, Op::Store { .. })).count();
    m.extend(body);
    m.push(Op::Join { t: child });
    // main reads the final value of the phase's location
    m.push(Op::Load { a: loc, o: SC });
    (m, mk(s, 20, nc), nres + 1)
}

pub fn build(draws: &[u16], tier: Tier) -> Case {
    build_mode(draws, tier, None)
}

/// `force`: the generation mode (0 = phase programs) instead of a drawn one
pub fn build_mode(draws: &[u16], tier: Tier, force: Option<usize>) -> Case {
    let mut s = Src::new(draws);
    let mode = s.pick(9);
    let mode = force.unwrap_or(mode);
    let sp = SyncParams { max_threads: 2, max_ops: 6, ..Default::default() };
    let mut c;
    match mode {
        // a frozen region of main racing with other threads: read-modify-writes only, so that every
        // result is one of an interleaving and the region's effect has an exact reference
        8 => {
            let nchild = s.range(1, 2);
            let nloc = s.range(1, 2) as u8;
            let mut next = 1u8;
            let mut rmw = |s: &mut Src| -> Op {
                let a = s.pick(nloc as usize) as u8;
                let v = next;
                next = next.wrapping_mul(3).max(2) % 100;
                if s.chance(3, 4) {
                    Op::FetchAdd { a, v, o: MO::Sc }
                } else {
                    Op::Swap { a, v, o: MO::Sc }
                }
            };
            let explicit = s.chance(1, 3);
            let mut main: Vec<Op> = (1..=nchild).map(|t| Op::Spawn { t: t as u8 }).collect();
            let k1 = if explicit { s.range(0, 1) } else { s.range(0, 2) };
            for _ in 0..k1 {
                main.push(rmw(&mut s));
            }
            if !explicit {
                main.push(Op::StopExploring);
            }
            for _ in 0..s.range(1, 2) {
                main.push(rmw(&mut s));
            }
            main.push(Op::Explore);
            for _ in 0..s.range(0, 2) {
                main.push(rmw(&mut s));
            }
            if s.chance(1, 2) {
                for t in 1..=nchild {
                    main.push(Op::Join { t: t as u8 });
                }
            }
            let mut threads = vec![main];
            for _ in 0..nchild {
                let n = s.range(1, 2);
                threads.push((0..n).map(|_| rmw(&mut s)).collect());
            }
            let prog = Program { threads, rx_owner: 0, arc_owner: vec![] };
            c = Case::new("C19", "region", prog);
            c.cfg.expect_explicit_explore = explicit;
            c.x.mode = Some("region".into());
            match s.pick(6) {
                // the controls together with a preemption bound (completeness is then not demanded)
                0 => c.cfg.preemption_bound = Some(s.range(0, 3)),
                // ... and with a run that is stopped after k iterations and resumed from its checkpoint
                1 => {
                    c.x.k = Some(1 + s.pick(10) as i64);
                    c.x.c = Some([1, 1, 2, 3][s.pick(4)] as i64);
                }
                _ => {}
            }
        }
        // phase programs A ; R ; C
        0 | 1 | 2 => {
            let (ma, ca, ra) = phase(&mut s, 0, 1);
            let (mr, cr, rr) = phase(&mut s, 1, 2);
            let (mc, cc, _rc) = phase(&mut s, 2, 3);
            let variant = s.pick(7);
            let mut main: Vec<Op> = vec![];
            let mut cfg_explicit = false;
            // region = which phase is not explored: 0 = R (middle), 1 = A, 2 = C via skip_branch, 3 = A via expect_explicit_explore, 4 = R..C via skip_branch
            match variant {
                0 => {
                    main.extend(ma);
                    main.push(Op::StopExploring);
                    main.extend(mr);
                    main.push(Op::Explore);
                    main.extend(mc);
                }
                1 => {
                    main.push(Op::StopExploring);
                    main.extend(ma);
                    main.push(Op::Explore);
                    main.extend(mr);
                    main.extend(mc);
                }
                2 => {
                    main.extend(ma);
                    main.extend(mr);
                    main.push(Op::SkipBranch);
                    main.extend(mc);
                }
                3 => {
                    cfg_explicit = true;
                    main.extend(ma);
                    main.push(Op::Explore);
                    main.extend(mr);
                    main.extend(mc);
                }
                4 => {
                    main.extend(ma);
                    main.push(Op::SkipBranch);
                    main.extend(mr);
                    main.extend(mc);
                }
                5 => {
                    // a stop/explore region first, skip_branch later: the skip of one iteration must
                    // not switch the controls off in the next iteration
                    main.push(Op::StopExploring);
                    main.extend(ma);
                    main.push(Op::Explore);
                    main.extend(mr);
                    main.push(Op::SkipBranch);
                    main.extend(mc);
                }
                _ => {
                    cfg_explicit = true;
                    main.extend(ma);
                    main.push(Op::Explore);
                    main.extend(mr);
                    main.push(Op::SkipBranch);
                    main.extend(mc);
                }
            }
            let prog = Program { threads: vec![main, ca, cr, cc], rx_owner: 0, arc_owner: vec![] };
            c = Case::new("C19", "phases", prog);
            c.cfg.expect_explicit_explore = cfg_explicit;
            c.x.mode = Some("phases".into());
            c.x.n = Some(variant as i64);
            c.x.k = Some(ra as i64);
            c.x.c = Some(rr as i64);
        }
        // arbitrary placement of the control calls in programs of the C01 families
        3 => {
            let mut prog = match s.pick(3) {
                0 => gen::sync_prog(&mut s, &SyncParams { mutex: true, channel: true, ordered_locks: true, max_threads: 3, max_ops: 6, joins: true, ..sp.clone() }),
                1 => gen::sync_prog(&mut s, &SyncParams { condvar: true, notify: true, max_threads: 3, max_ops: 6, joins: true, ..sp.clone() }),
                _ => gen::litmus(&mut s, &gen::LitmusParams { sc_only: true, fences: false, rmw: true, free_mix: false, max_threads: 3, max_events: 5, joins: false, late_spawn: true }),
            };
            // the calls are placed in main (the protocol stop/explore must alternate); skip_branch anywhere
            let explicit = s.chance(1, 4);
            let mut exploring = !explicit;
            let ncalls = s.range(1, 3);
            for _ in 0..ncalls {
                let at = s.pick(prog.threads[0].len() + 1);
                // keep the alternation consistent: insert positions must be increasing; simply append in order
                let op = if s.chance(1, 5) {
                    Op::SkipBranch
                } else if exploring {
                    exploring = false;
                    Op::StopExploring
                } else {
                    exploring = true;
                    Op::Explore
                };
                let _ = at;
                let pos = prog.threads[0].iter().rposition(|o| matches!(o, Op::StopExploring | Op::Explore | Op::SkipBranch)).map(|p| p + 1).unwrap_or(0);
                let at = pos + s.pick(prog.threads[0].len() - pos + 1);
                let skip = matches!(op, Op::SkipBranch);
                prog.threads[0].insert(at, op);
                if skip {
                    break;
                }
            }
            c = Case::new("C19", "placement", prog);
            c.cfg.expect_explicit_explore = explicit;
            c.x.mode = Some("placement".into());
        }
        // max_branches around the exact need
        4 => {
            let prog = match s.pick(2) {
                0 => gen::sync_prog(&mut s, &SyncParams { mutex: true, channel: true, ordered_locks: true, max_threads: 2, max_ops: 6, joins: true, ..sp.clone() }),
                _ => gen::litmus(&mut s, &gen::LitmusParams { sc_only: false, fences: true, rmw: true, free_mix: false, max_threads: 2, max_events: 5, joins: true, late_spawn: false }),
            };
            c = Case::new("C19", "max_branches", prog);
            c.x.mode = Some("max_branches".into());
            c.x.n = Some(s.pick(5) as i64 - 2); // delta to the exact need
        }
        // max_threads around the number of threads the program needs
        5 => {
            let k = s.range(1, 4);
            let mut threads: Vec<Vec<Op>> = vec![vec![]];
            for t in 1..=k {
                threads[0].push(Op::Spawn { t: t as u8 });
                threads.push(vec![Op::Load { a: 0, o: SC }]);
            }
            // optionally a child spawns the last thread instead of main
            if k >= 2 && s.chance(1, 3) {
                let last = threads[0].pop().unwrap();
                threads[1].push(last);
            }
            let prog = Program { threads, rx_owner: 0, arc_owner: vec![] };
            c = Case::new("C19", "max_threads", prog);
            c.x.mode = Some("max_threads".into());
            c.cfg.max_threads = s.range(1, 5);
        }
        // max_permutations x checkpoint_interval, max_duration
        _ => {
            let prog = gen::litmus(&mut s, &gen::LitmusParams { sc_only: false, fences: false, rmw: true, free_mix: false, max_threads: 2, max_events: 5, joins: false, late_spawn: false });
            c = Case::new("C19", "stop_limits", prog);
            if mode == 6 {
                c.x.mode = Some("max_permutations".into());
                c.x.n = Some(s.range(0, 40) as i64);
                c.x.c = Some(s.range(1, 9) as i64);
            } else {
                c.x.mode = Some("max_duration".into());
                c.x.k = Some(s.pick(2) as i64); // 1 = max_permutations is set as well
                c.x.n = Some(s.pick(2) as i64); // 0 = zero duration, 1 = one hour
                c.x.c = Some(s.range(1, 9) as i64);
            }
        }
    }
    if c.cfg.max_permutations.is_none() && !matches!(c.x.mode.as_deref(), Some("max_permutations") | Some("max_duration")) {
        c.cfg.max_permutations = Some(tier.iter_cap());
    }
    c.cfg.max_branches = c.cfg.max_branches.max(1000);
    c
}

fn strip_controls(p: &Program) -> Program {
    let mut q = p.clone();
    for t in q.threads.iter_mut() {
        t.retain(|o| !matches!(o, Op::StopExploring | Op::Explore | Op::SkipBranch));
    }
    q
}

fn set_str(s: &BTreeSet<Outcome>) -> Vec<String> {
    s.iter().take(30).map(fmt_outcome).collect()
}

pub fn eval(case: &Case) -> Verdict {
    let p = &case.prog;
    let mut v = Verdict::pass();
    if let Err(e) = p.well_formed() {
        return Verdict::skip(&format!("ill-formed: {}", e));
    }
    let mode = case.x.mode.clone().unwrap_or_default();
    v.label(&format!("mode_{}", mode));
    match mode.as_str() {
        "region" => {
            // reference: every interleaving in which main, once inside the region, keeps running
            // until `explore()` (decisions inside the region are not explored), all decisions
            // outside fully explored:  Rfrozen ⊆ L ⊆ R
            let run = if let Some(k) = case.x.k.filter(|k| *k > 0) {
                let file = crate::script::scratch_file("c19ckpt");
                let _ = std::fs::remove_file(&file);
                let mut cfg = case.cfg.clone();
                cfg.checkpoint_interval = case.x.c.unwrap_or(1).max(1) as usize;
                let mut c1 = cfg.clone();
                c1.max_permutations = Some(k as usize);
                let mut r1 = interp::collect_with(p, &c1, interp::RunOpts { checkpoint_file: Some(file.clone()), ..Default::default() }, false);
                let r2 = interp::collect_with(p, &cfg, interp::RunOpts { checkpoint_file: Some(file.clone()), ..Default::default() }, false);
                let _ = std::fs::remove_file(&file);
                v.label("stopped_and_resumed");
                for (o, n) in r2.outcomes {
                    *r1.outcomes.entry(o).or_insert(0) += n;
                }
                r1.report.iters += r2.report.iters;
                r1.report.capped = r2.report.capped;
                if r1.report.panic.is_none() {
                    r1.report.panic = r2.report.panic;
                }
                r1
            } else {
                interp::collect(p, &case.cfg, false)
            };
            v.loom_iters = run.report.iters as u64;
            if run.report.capped {
                return Verdict::skip("capped");
            }
            let bounded = case.cfg.preemption_bound.is_some();
            if bounded {
                v.label("preemption_bound");
            }
            let mut o = refsc::Opts::new();
            o.max_states = 400_000;
            let all = refsc::explore(p, o.clone());
            o.freeze = if case.cfg.expect_explicit_explore { 2 } else { 1 };
            let fr = refsc::explore(p, o);
            if all.truncated || fr.truncated {
                return Verdict::skip("reference budget");
            }
            v.ref_states = (all.states + fr.states) as u64;
            let l: BTreeSet<Outcome> = run.outcomes.keys().cloned().collect();
            v.detail = serde_json::json!({"L": set_str(&l), "R_frozen": set_str(&fr.outcomes), "R": set_str(&all.outcomes), "loom": {"iterations": run.report.iters, "panic": run.report.panic}});
            v.nontrivial = fr.outcomes.len() >= 2 && fr.outcomes.len() < all.outcomes.len();
            if case.cfg.expect_explicit_explore {
                v.label("expect_explicit_explore");
            }
            if let Some(m) = &run.report.panic {
                return v.fail("unexpected_panic", format!("the run panicked with `{}`", m));
            }
            if let Some(x) = l.iter().find(|x| !all.outcomes.contains(*x)) {
                return v.fail("impossible_outcome", format!("result {} is not produced by any interleaving", fmt_outcome(x)));
            }
            if let Some(x) = l.iter().find(|x| !fr.outcomes.contains(*x)) {
                return v.fail("region_explored", format!("result {} needs a scheduling decision inside the stop_exploring()/explore() region to go against the default", fmt_outcome(x)));
            }
            if bounded {
                return v;
            }
            if let Some(x) = fr.outcomes.iter().find(|x| !l.contains(*x)) {
                return v.fail("outside_not_fully_explored", format!("result {} only needs decisions outside the region, but is never explored ({} of {} missing)", fmt_outcome(x), fr.outcomes.iter().filter(|x| !l.contains(*x)).count(), fr.outcomes.len()));
            }
            v
        }
        "phases" | "placement" => {
            let restricted = interp::collect(p, &case.cfg, true);
            let mut ucfg = case.cfg.clone();
            ucfg.expect_explicit_explore = false;
            let q = strip_controls(p);
            let unrestricted = interp::collect(&q, &ucfg, false);
            v.loom_iters = (restricted.report.iters + unrestricted.report.iters) as u64;
            if restricted.report.capped || unrestricted.report.capped {
                return Verdict::skip("capped");
            }
            {
                // classes of recorded exploration-completeness findings (the unrestricted run is the yardstick)
                let mut o = refsc::Opts::new();
                o.notify_any = true;
                o.max_states = 100_000;
                let scr = refsc::explore(&q, o);
                if scr.send_after_rx_drop {
                    v.label("class:send_after_rx_drop");
                }
            }
            let lr: BTreeSet<Outcome> = restricted.outcomes.keys().cloned().collect();
            let lu: BTreeSet<Outcome> = unrestricted.outcomes.keys().cloned().collect();
            v.detail = serde_json::json!({"L_restricted": set_str(&lr), "L_unrestricted": set_str(&lu),
                "iterations": {"restricted": restricted.report.iters, "unrestricted": unrestricted.report.iters},
                "panics": {"restricted": restricted.report.panic, "unrestricted": unrestricted.report.panic}});
            v.nontrivial = lu.len() >= 2 && (restricted.report.iters != unrestricted.report.iters || lr != lu);
            if let Some(pm) = &restricted.report.panic {
                // a failure (deadlock ...) found in the restricted run must be one the unrestricted run finds too
                let ku = unrestricted.report.panic.as_deref().map(sc::panic_kind);
                if ku != Some(sc::panic_kind(pm)) {
                    return v.fail("restricted_only_failure", format!("the restricted run fails with `{}` but the unrestricted run ends with {:?}", pm, unrestricted.report.panic));
                }
                return v;
            }
            if unrestricted.report.panic.is_none() {
                if let Some(x) = lr.iter().find(|x| !lu.contains(*x)) {
                    return v.fail("result_not_in_unrestricted", format!("result {} of the restricted exploration is not a result of the unrestricted one", fmt_outcome(x)));
                }
            }
            // validity of every execution (programs without atomics: replay on the reference machines)
            if q.n_atomics() == 0 {
                let mut o = refsc::Opts::new();
                o.notify_any = true;
                o.max_states = 100_000;
                let m = refsc::Sc::new(&q, o);
                for r in &restricted.records {
                    // map log indices of p to indices of q (control ops removed)
                    let mut log = vec![];
                    for (t, i) in &r.log {
                        let ops = &p.threads[*t as usize];
                        if matches!(ops[*i as usize], Op::StopExploring | Op::Explore | Op::SkipBranch) {
                            continue;
                        }
                        let removed = ops[..*i as usize].iter().filter(|o| matches!(o, Op::StopExploring | Op::Explore | Op::SkipBranch)).count();
                        log.push((*t, *i - removed as u8));
                    }
                    let end = if r.aborted { refsc::End::Any } else { refsc::End::Complete };
                    if m.replay(&log, &r.results, end, false) == refsc::Replay::Rejected {
                        return v.fail("invalid_trace", format!("an execution explored under the controls is not a valid execution: {:?} results {}", log, fmt_outcome(&r.results)));
                    }
                }
            }
            if mode == "phases" && unrestricted.report.panic.is_none() {
                let variant = case.x.n.unwrap_or(0);
                let ra = case.x.k.unwrap_or(0) as usize;
                let rr = case.x.c.unwrap_or(0) as usize;
                // projections: A = (main[..ra], t1), R = (main[ra..ra+rr], t2), C = (main[ra+rr..], t3)
                let proj = |o: &Outcome, which: usize| -> (Vec<i64>, Vec<i64>) {
                    let m = &o[0];
                    match which {
                        0 => (m[..ra.min(m.len())].to_vec(), o[1].clone()),
                        1 => (m[ra.min(m.len())..(ra + rr).min(m.len())].to_vec(), o[2].clone()),
                        _ => (m[(ra + rr).min(m.len())..].to_vec(), o[3].clone()),
                    }
                };
                let frozen: Vec<usize> = match variant {
                    0 => vec![1],
                    1 => vec![0],
                    2 => vec![2],
                    3 => vec![0],
                    4 => vec![1, 2],
                    5 => vec![0, 2],
                    _ => vec![0, 2],
                };
                for which in 0..3 {
                    let pr: BTreeSet<_> = lr.iter().map(|o| proj(o, which)).collect();
                    let pu: BTreeSet<_> = lu.iter().map(|o| proj(o, which)).collect();
                    if frozen.contains(&which) {
                        if pr.len() != 1 {
                            return v.fail("region_explored", format!("phase {} lies inside the unexplored region but {} different results of it were produced: {:?}", which, pr.len(), pr));
                        }
                    } else if pr != pu {
                        return v.fail(
                            "outside_not_fully_explored",
                            format!("phase {} lies outside the unexplored region but its results differ from the unrestricted run: {:?} vs {:?}", which, pr, pu),
                        );
                    }
                }
                // exact product of the explored phases
                let mut expect = 1usize;
                for which in 0..3 {
                    if !frozen.contains(&which) {
                        expect *= lu.iter().map(|o| proj(o, which)).collect::<BTreeSet<_>>().len();
                    }
                }
                if lr.len() != expect {
                    return v.fail("not_a_product", format!("{} results under the controls, expected the product of the explored phases = {}", lr.len(), expect));
                }
                v.label(&format!("variant{}", variant));
            }
            v
        }
        "max_branches" => {
            // dry run: longest decision path
            let need: Arc<Mutex<usize>> = Arc::new(Mutex::new(0));
            let n2 = need.clone();
            let hook = Box::new(move |ph: Phase, _i: usize, path: &[Branch]| {
                if ph == Phase::IterationEnd {
                    let mut m = n2.lock().unwrap();
                    *m = (*m).max(path.len());
                }
            });
            let dry = interp::collect_with(p, &case.cfg, interp::RunOpts { hook: Some(hook), ..Default::default() }, false);
            if dry.report.capped {
                return Verdict::skip("capped");
            }
            if dry.report.panic.is_some() {
                return Verdict::skip("dry run panics");
            }
            let need = *need.lock().unwrap();
            let delta = case.x.n.unwrap_or(0);
            let mb = (need as i64 + delta).max(1) as usize;
            let mut cfg = case.cfg.clone();
            cfg.max_branches = mb;
            let run = interp::collect(p, &cfg, false);
            v.loom_iters = (dry.report.iters + run.report.iters) as u64;
            v.nontrivial = delta.abs() <= 1 && need >= 3;
            v.label(&format!("delta{}", delta));
            v.detail = serde_json::json!({"need": need, "max_branches": mb, "panic": run.report.panic, "iterations": run.report.iters});
            let exceeded = need > mb;
            match (&run.report.panic, exceeded) {
                (Some(m), true) => {
                    if !m.contains("Model exceeded maximum number of branches") {
                        return v.fail("wrong_message", format!("max_branches={} < need={} but the panic message is `{}`", mb, need, m));
                    }
                }
                (None, true) => {
                    return v.fail("limit_not_enforced", format!("the longest execution needs {} branches, max_branches={} but the run completed", need, mb));
                }
                (Some(m), false) => {
                    return v.fail("limit_too_strict", format!("the longest execution needs {} branches, max_branches={} but the run panicked with `{}`", need, mb, m));
                }
                (None, false) => {}
            }
            v
        }
        "max_threads" => {
            let run = interp::collect(p, &case.cfg, false);
            v.loom_iters = run.report.iters as u64;
            let needed = p.n_threads();
            let mt = case.cfg.max_threads;
            v.nontrivial = (needed as i64 - mt as i64).abs() <= 1;
            v.detail = serde_json::json!({"threads_needed": needed, "max_threads": mt, "panic": run.report.panic});
            match (&run.report.panic, needed > mt) {
                (None, true) => v.fail("limit_not_enforced", format!("the program runs {} threads, max_threads={} but the run completed", needed, mt)),
                (Some(m), false) => v.fail("limit_too_strict", format!("the program runs {} threads, max_threads={} but the run panicked with `{}`", needed, mt, m)),
                _ => v,
            }
        }
        "max_permutations" | "max_duration" => {
            // N = iterations of the unlimited run
            let mut cfg0 = case.cfg.clone();
            cfg0.max_permutations = None;
            let full = interp::collect(p, &cfg0, false);
            if full.report.panic.is_some() {
                return Verdict::skip("program panics");
            }
            let n_total = full.report.iters;
            let c = case.x.c.unwrap_or(1).max(1) as usize;
            let mut cfg = case.cfg.clone();
            cfg.checkpoint_interval = c;
            let (run, lo, hi, what) = if mode == "max_permutations" {
                let pmax = case.x.n.unwrap_or(0).max(0) as usize;
                cfg.max_permutations = Some(pmax);
                // (with a max_duration that is never reached: both limits together)
                let run = interp::collect_with(p, &cfg, interp::RunOpts { max_duration: Some(std::time::Duration::from_secs(3600)), ..Default::default() }, false);
                // stops at the first multiple m of c with m >= p: no later than that boundary
                let m = c * ((pmax + c - 1) / c).max(1);
                (run, n_total.min(pmax.saturating_sub(1)), n_total.min(m), format!("max_permutations={} checkpoint_interval={}", pmax, c))
            } else {
                // half of the cases also set a (never reached) max_permutations: both limits together
                cfg.max_permutations = if case.x.k.unwrap_or(0) % 2 == 1 { Some(n_total + 100) } else { None };
                let zero = case.x.n.unwrap_or(0) == 0;
                let d = if zero { std::time::Duration::from_secs(0) } else { std::time::Duration::from_secs(3600) };
                let run = interp::collect_with(p, &cfg, interp::RunOpts { max_duration: Some(d), ..Default::default() }, false);
                if zero {
                    (run, 0, n_total.min(c), format!("max_duration=0 checkpoint_interval={} max_permutations={:?}", c, cfg.max_permutations))
                } else {
                    (run, n_total, n_total, format!("max_duration=1h checkpoint_interval={}", c))
                }
            };
            v.loom_iters = (full.report.iters + run.report.iters) as u64;
            v.nontrivial = n_total >= 3 && lo < n_total;
            v.detail = serde_json::json!({"N": n_total, "executed": run.report.iters, "allowed": [lo, hi], "config": what, "panic": run.report.panic});
            if let Some(m) = &run.report.panic {
                return v.fail("limit_reports_failure", format!("{}: the run panicked with `{}`", what, m));
            }
            if run.report.iters > hi {
                return v.fail("limit_overrun", format!("{}: {} iterations executed, the limit allows at most {} (N = {})", what, run.report.iters, hi, n_total));
            }
            if run.report.iters < lo {
                return v.fail("stopped_too_early", format!("{}: only {} iterations executed, at least {} expected (N = {})", what, run.report.iters, lo, n_total));
            }
            v
        }
        other => Verdict::skip(&format!("unknown mode {}", other)),
    }
}
