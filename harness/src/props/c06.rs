//! C06: a failure in any explored execution fails the model run, and only then.
//!
//! Fault injection: a base program from the other families gets a fault planted - a user panic
//! (always, or only when an operation returned a particular value, i.e. only in some
//! iterations) at a generated thread / position / context (plain, inside a critical section,
//! right after a spawn, inside `UnsafeCell::with_mut`, inside an atomic's `with_mut`), or the base
//! program fails by itself (deadlock, leak, data race), or `max_branches` is set too low. The
//! faulty model and then a sentinel model run in ONE fresh child process.
//! Oracle: R-SC decides which failures are reachable: the run must unwind out of `check` with
//! the injected message / the documented loom message iff one is reachable, must complete
//! otherwise; the process must survive (an abort is a violation); the sentinel run that follows
//! in the same process must produce exactly the iteration sequence it produces alone.

use crate::case::*;
use crate::dsl::*;
use crate::gen::{self, Src, SyncParams};
use crate::props::sc;
use crate::script::{self, RunSpec, Script, Step};

fn sentinel() -> Program {
    // a small program with schedule, load and spurious branches, thread-locals and a lazy static
    Program {
        threads: vec![
            vec![Op::Spawn { t: 1 }, Op::Store { a: 0, v: 1, o: MO::Rel }, Op::LazyGet { k: 0 }, Op::NfNotify { n: 0 }, Op::Join { t: 1 }, Op::Load { a: 0, o: MO::Rlx }],
            vec![Op::Load { a: 0, o: MO::Acq }, Op::TlsBump { k: 0 }, Op::NfWait { n: 0 }, Op::LazyGet { k: 0 }],
        ],
        rx_owner: 0,
        arc_owner: vec![],
    }
}

pub fn build(draws: &[u16], _tier: Tier) -> Case {
    let mut s = Src::new(draws);
    let sp = SyncParams { max_threads: 2, max_ops: 6, ..Default::default() };
    let (family, mut prog): (&str, Program) = match s.pick(8) {
        0 => ("mutex-rwlock", gen::sync_prog(&mut s, &SyncParams { mutex: true, rwlock: true, atomics: true, ordered_locks: true, max_threads: 3, max_ops: 7, ..sp.clone() })),
        1 => ("channel", gen::sync_prog(&mut s, &SyncParams { channel: true, atomics: true, max_threads: 3, max_ops: 6, joins: true, ..sp.clone() })),
        2 => ("condvar-notify", gen::sync_prog(&mut s, &SyncParams { condvar: true, notify: true, atomics: true, max_threads: 2, max_ops: 7, joins: true, ..sp.clone() })),
        3 => ("deadlocky", gen::sync_prog(&mut s, &SyncParams { mutex: true, park: true, ordered_locks: false, max_threads: 3, max_ops: 7, joins: true, ..sp.clone() })),
        4 | 5 => ("arc-tracked", gen::arc_prog(&mut s, &gen::ArcParams { inspect: true, leaks: true, tracked: true, cells: false, max_threads: 2, max_ops: 6 })),
        6 => ("tls-lazy", gen::tls_lazy_prog(&mut s, 2, 6, true)),
        _ => ("lock-handover", gen::lock_handover(&mut s)),
    };
    // the fault
    let kind = s.pick(8);
    let mut mode = "user_panic";
    match kind {
        0 | 1 | 2 | 3 => {
            // panic_if at a random position of a random thread; conditional when it follows an op with a result
            let t = s.pick(prog.threads.len());
            let at = s.pick(prog.threads[t].len() + 1);
            let cond = at > 0 && s.chance(1, 2);
            let v = if cond { s.pick(3) as i8 } else { -1 };
            prog.threads[t].insert(at, Op::PanicIf { v });
            if s.chance(1, 4) {
                let g = s.pick(at + 1);
                prog.threads[t].insert(g, Op::DropGuardStore { a: 2 });
            }
        }
        4 => {
            let t = s.pick(prog.threads.len());
            let at = s.pick(prog.threads[t].len() + 1);
            // a panic of the user inside `with_mut`, or loom's own report of a nested access
            let op = if s.chance(1, 2) { Op::PanicInCellMut { c: 1 } } else { Op::CellNested { c: 1, k: s.pick(3) as u8 } };
            prog.threads[t].insert(at, op);
        }
        5 => {
            let t = s.pick(prog.threads.len());
            let at = s.pick(prog.threads[t].len() + 1);
            prog.threads[t].insert(at, Op::PanicInAtomMut { a: 2 });
            if s.chance(1, 2) {
                // a guard armed earlier in the same thread touches the same atomic while the panic unwinds
                let g = s.pick(at + 1);
                prog.threads[t].insert(g, Op::DropGuardStore { a: 2 });
            }
        }
        6 => mode = "own_failure_or_none",
        _ => mode = if s.chance(1, 2) { "branch_limit" } else { "thread_limit" },
    }
    let mut c = Case::new("C06", family, prog);
    c.x.mode = Some(mode.into());
    c.cfg.max_permutations = Some(3000);
    c.cfg.checkpoint_interval = 1;
    c.cfg.max_branches = if mode == "branch_limit" { s.range(2, 12) } else { 5000 };
    if mode == "thread_limit" {
        // one or two threads fewer than the program needs, or exactly enough
        let need = c.prog.n_threads();
        c.cfg.max_threads = (need + 1 - s.range(1, 3)).max(1);
    }
    c
}

pub fn eval(case: &Case) -> Verdict {
    let p = &case.prog;
    let mut v = Verdict::pass();
    let mode = case.x.mode.clone().unwrap_or_default();
    let reference = match sc::reference(case, &mut v) {
        Ok(r) => r,
        Err(skip) => return skip,
    };
    let sent = sentinel();
    let mut scfg = Config::default();
    scfg.checkpoint_interval = 1;
    scfg.max_permutations = Some(2000);
    let spec_p = RunSpec { prog: p.clone(), cfg: case.cfg.clone(), ..Default::default() };
    let spec_s = RunSpec { prog: sent.clone(), cfg: scfg.clone(), ..Default::default() };
    let run = |runs: Vec<RunSpec>| script::run_fresh(&Script { steps: vec![Step { runs, parallel: false }] });
    let alone = match run(vec![spec_s.clone()]) {
        Ok(mut r) => script::normalise(&r.remove(0).remove(0)),
        Err(e) => return Verdict::skip(&format!("sentinel alone: {:?}", e)),
    };
    let both = match run(vec![spec_p.clone(), spec_s.clone()]) {
        Ok(r) => r,
        Err(script::SubErr::Signal(sig)) => {
            v.detail = serde_json::json!({"signal": sig});
            return v.fail(
                "process_abort",
                format!("the process running the model died from signal {} instead of `check` unwinding with a panic (reference: deadlock={} leaks={:?} race={} injected panic reachable={})", sig, reference.deadlock, reference.leaks, reference.race_min, reference.panic_reachable),
            );
        }
        Err(script::SubErr::Other(e)) => return Verdict::skip(&format!("subrun: {}", e)),
    };
    let rp = both[0][0].clone();
    let rs = script::normalise(&both[0][1]);
    v.loom_iters = (rp.iters + rs.iters + alone.iters) as u64;
    if rp.capped {
        return Verdict::skip("capped");
    }
    v.label(&format!("mode_{}", mode));
    v.label(&format!("threads{}", p.n_threads()));
    // where the fault sits
    let mut special = false;
    for (t, i, op) in p.ops() {
        if matches!(op, Op::CellNested { .. }) {
            v.label("nested_cell_access");
        }
        if matches!(op, Op::PanicIf { .. } | Op::PanicInCellMut { .. } | Op::PanicInAtomMut { .. } | Op::CellNested { .. }) {
            if t > 0 {
                v.label("fault_in_spawned_thread");
                special = true;
            }
            let before = &p.threads[t][..i];
            let locks = before.iter().filter(|o| matches!(o, Op::Lock { .. } | Op::Read { .. } | Op::Write { .. })).count();
            let unlocks = before.iter().filter(|o| matches!(o, Op::Unlock { .. } | Op::UnlockR { .. } | Op::UnlockW { .. })).count();
            if locks > unlocks {
                v.label("fault_while_holding_lock");
                special = true;
            }
            if matches!(before.last(), Some(Op::Spawn { .. })) {
                v.label("fault_right_after_spawn");
                special = true;
            }
            if matches!(op, Op::PanicIf { v } if *v >= 0) {
                v.label("fault_in_some_iterations_only");
            }
            if !matches!(op, Op::PanicIf { .. }) {
                v.label("fault_inside_with_mut");
                special = true;
            }
            if p.n_arcs() > 0 {
                v.label("threads_own_arcs");
            }
        }
    }
    if reference.panic_reachable {
        v.label("injected_panic_reachable");
    }
    if reference.deadlock || reference.leaks.any() || reference.race_max {
        v.label("loom_detected_failure_reachable");
    }
    v.nontrivial = special || mode != "user_panic";
    v.detail = serde_json::json!({
        "faulty_run": {"iterations": rp.iters, "panic": rp.panic},
        "reference": {"deadlock": reference.deadlock, "leaks": format!("{:?}", reference.leaks), "race_must": reference.race_max, "panic_reachable": reference.panic_reachable},
        "sentinel": {"iterations_alone": alone.iters, "iterations_after": rs.iters, "panic_after": rs.panic},
    });
    // 1. the faulty run itself
    if mode == "thread_limit" {
        let need = p.n_threads();
        match (&rp.panic, need > case.cfg.max_threads) {
            (None, true) => {
                // fewer threads allowed than the program spawns: some panic is required unless the
                // program fails earlier in every execution
                if !(reference.outcomes.is_empty() && reference.leak_outcomes.is_empty()) {
                    return v.fail("limit_not_enforced", format!("the program runs {} threads, max_threads={} but the run completed", need, case.cfg.max_threads));
                }
            }
            _ => {}
        }
    } else if mode == "branch_limit" {
        // either the limit is hit (documented message) or one of the reachable failures / a clean completion
        if let Some(m) = &rp.panic {
            let k = sc::panic_kind(m);
            if k == "other" {
                return v.fail("unexpected_panic", format!("max_branches={}: the run panicked with `{}`", case.cfg.max_branches, m));
            }
        }
    } else {
        // every maximal execution ends in the injected panic: then the run must fail whatever is explored
        let always_fails = reference.panic_reachable && reference.outcomes.is_empty() && reference.leak_outcomes.is_empty() && !reference.deadlock;
        let e = sc::from_parts(case, reference, rp.iters, rp.panic.clone(), rp.records.clone());
        let mut detail = serde_json::Value::Null;
        // whether loom *finds* a failing execution that exists only in some schedules is the business of
        // C01/C05/C10; here: no failure may be invented, a failure that was hit must come out with
        // its message, and what was explored must be valid
        if let Some((kind, msg)) = sc::compare(case, &e, &mut detail) {
            let completeness = kind.starts_with("missed_") || kind == "missing_outcome";
            if !completeness || (always_fails && rp.panic.is_none()) {
                return v.fail(&kind, msg);
            }
        }
        if always_fails {
            v.label("fails_in_every_execution");
        }
    }
    // 2. the same process is still usable and starts clean
    if rs != alone {
        return v.fail(
            "later_run_not_clean",
            format!(
                "after the {} model run, a sentinel model in the same process explored {} iterations (panic {:?}); alone in a fresh process it explores {} (panic {:?})",
                if rp.panic.is_some() { "failing" } else { "completed" },
                rs.iters, rs.panic, alone.iters, alone.panic
            ),
        );
    }
    v
}
