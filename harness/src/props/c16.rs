//! C16: iterations (and model runs) are isolated from one another.
//!
//! P alone in a fresh process is the yardstick. The same P is then run (in another fresh process)
//! after other models Q (including ones that panic, deadlock, leak, touch thread-locals and lazy
//! statics), in the middle of a sequence, and at the same time as other models on other OS
//! threads: its complete iteration sequence (op log, results, thread ids, thread-local / lazy-static
//! init and drop notes of every iteration) must be identical. Plus per-iteration invariants: the
//! main thread has id 0, spawned threads get 1, 2, .. in spawn order, a lazy static is initialised
//! at most once per iteration and again in the next iteration that touches it.

use crate::case::*;
use crate::dsl::*;
use crate::gen::{self, Src, SyncParams};
use crate::interp::{self, IterRec};
use crate::script::{self, RunResult, RunSpec, Script, Step};

fn gen_prog(s: &mut Src, allow_fail: bool) -> (&'static str, Program) {
    let sp = SyncParams { max_threads: 2, max_ops: 6, ..Default::default() };
    match s.pick(if allow_fail { 9 } else { 7 }) {
        0 | 1 => ("tls-lazy", gen::tls_lazy_prog(s, 3, 7, true)),
        // SeqCst fences and accesses: state that is global to an execution (the SeqCst clock)
        6 => ("fences", {
            let lp = gen::LitmusParams { sc_only: false, fences: true, rmw: false, free_mix: false, max_threads: 2, max_events: 5, joins: false, late_spawn: false };
            if s.chance(1, 2) {
                gen::litmus_chain(s, &lp)
            } else {
                gen::litmus_shape(s, &lp)
            }
        }),
        2 => ("litmus", gen::litmus(s, &gen::LitmusParams { sc_only: false, fences: true, rmw: true, free_mix: true, max_threads: 2, max_events: 5, joins: false, late_spawn: true })),
        3 => ("locks", gen::sync_prog(s, &SyncParams { mutex: true, rwlock: true, ordered_locks: true, max_threads: 3, max_ops: 6, ..sp.clone() })),
        4 => ("channel", gen::sync_prog(s, &SyncParams { channel: true, max_threads: 3, max_ops: 6, joins: true, ..sp.clone() })),
        5 => ("notify-condvar", gen::sync_prog(s, &SyncParams { notify: true, condvar: true, atomics: true, max_threads: 2, max_ops: 6, joins: true, ..sp.clone() })),
        // failing models: deadlocks, leaks
        7 => ("deadlocky", gen::sync_prog(s, &SyncParams { mutex: true, park: true, channel: true, ordered_locks: false, max_threads: 3, max_ops: 7, joins: true, ..sp.clone() })),
        _ => ("tls-lazy-panic", {
            let mut p = gen::tls_lazy_prog(s, 2, 6, true);
            let t = s.pick(p.threads.len());
            let at = s.pick(p.threads[t].len() + 1);
            p.threads[t].insert(at, Op::PanicIf { v: -1 });
            p
        }),
    }
}

pub fn build(draws: &[u16], _tier: Tier) -> Case {
    let mut s = Src::new(draws);
    if s.chance(1, 10) {
        // exploration state (the exploring / skipping flags of `stop_exploring`, `explore`,
        // `skip_branch`) must not survive from one iteration into the next either: phase programs
        // of C19 with its product oracle (a flag left over from an earlier iteration freezes or
        // unfreezes a phase in the later ones)
        let mut c = crate::props::c19::build_mode(&draws[1..], _tier, Some(0));
        c.prop = "C16".into();
        c.family = "controls".into();
        return c;
    }
    let mode = ["seq", "seq", "middle", "parallel", "parallel", "resume", "resume"][s.pick(7)];
    let (fam, p) = gen_prog(&mut s, false);
    let (_, q) = gen_prog(&mut s, true);
    let mut c = Case::new("C16", fam, p);
    c.x.prog2 = Some(q);
    c.x.mode = Some(mode.into());
    c.x.n = Some(s.range(2, 6) as i64); // OS threads in parallel mode
    c.cfg.max_branches = 5000;
    c.cfg.max_permutations = Some(400);
    c.cfg.checkpoint_interval = 1;
    c
}

use crate::script::normalise;

fn invariants(p: &Program, r: &RunResult) -> Option<String> {
    for (i, rec) in r.records.iter().enumerate() {
        let mut ids: Vec<(i64, i64)> = rec.notes.iter().filter(|n| n.0 == interp::NOTE_THREAD_ID).map(|n| (n.1, n.2)).collect();
        ids.sort();
        for (t, id) in &ids {
            if *t == 0 && *id != 0 {
                return Some(format!("iteration {}: the main thread has id {}", i + 1, id));
            }
            if *t > 0 && (*id < 1 || *id as usize >= p.n_threads()) {
                return Some(format!("iteration {}: spawned thread t{} has id {} (program has {} threads)", i + 1, t, id, p.n_threads()));
            }
        }
        let mut seen = std::collections::HashSet::new();
        for (_, id) in &ids {
            if !seen.insert(*id) {
                return Some(format!("iteration {}: thread id {} used twice", i + 1, id));
            }
        }
        // lazy statics: at most one init per key per iteration, and an init whenever the key is touched
        for key in 0..3i64 {
            let inits = rec.notes.iter().filter(|n| n.0 == interp::NOTE_LAZY_INIT && n.1 == key).count();
            let touched = rec.log.iter().any(|(t, j)| matches!(p.threads[*t as usize][*j as usize], Op::LazyGet { k } | Op::LazyCellRead { k } if k as i64 == key));
            if inits > 1 && key != 2 {
                return Some(format!("iteration {}: lazy static {} initialised {} times", i + 1, key, inits));
            }
            if touched && inits == 0 {
                return Some(format!("iteration {}: lazy static {} was used but not initialised in this iteration (value of an earlier iteration is visible)", i + 1, key));
            }
        }
    }
    None
}

fn first_diff(a: &RunResult, b: &RunResult) -> String {
    if a.iters != b.iters || a.panic != b.panic {
        return format!("{} iterations / panic {:?}  vs  {} iterations / panic {:?}", a.iters, a.panic, b.iters, b.panic);
    }
    match a.records.iter().zip(b.records.iter()).position(|(x, y)| x != y) {
        Some(i) => {
            let (x, y): (&IterRec, &IterRec) = (&a.records[i], &b.records[i]);
            format!("iteration {} differs: alone log={:?} results={} notes={:?}  |  here log={:?} results={} notes={:?}", i + 1, x.log, fmt_outcome(&x.results), x.notes, y.log, fmt_outcome(&y.results), y.notes)
        }
        None => "record counts differ".into(),
    }
}

pub fn eval(case: &Case) -> Verdict {
    let p = &case.prog;
    let mut v = Verdict::pass();
    if let Err(e) = p.well_formed() {
        return Verdict::skip(&format!("ill-formed: {}", e));
    }
    if case.family == "controls" {
        let mut c = case.clone();
        c.prop = "C19".into();
        let mut v = crate::props::c19::eval(&c);
        v.labels.retain(|l| !l.starts_with("mode_"));
        v.label("mode_controls");
        return v;
    }
    let q = match &case.x.prog2 {
        Some(q) => q.clone(),
        None => return Verdict::skip("no second program"),
    };
    let mode = case.x.mode.clone().unwrap_or_else(|| "seq".into());
    if mode == "resume" {
        // state leaking from one iteration into the next inside one run: iteration j executed as
        // the first iteration of a fresh process (resumed from a checkpoint) must be identical to
        // iteration j of the uninterrupted run (the oracle of C13, applied to these programs)
        let mut c = case.clone();
        c.x.mode = Some("clean".into());
        c.x.c = Some(1);
        c.x.k = Some(case.x.n.unwrap_or(2) * 9000);
        c.x.prog2 = None;
        c.cfg.max_permutations = None;
        let mut v = crate::props::c13::eval(&c);
        v.labels.retain(|l| !l.starts_with("mode_"));
        v.label("mode_resume");
        return v;
    }
    let spec_p = RunSpec { prog: p.clone(), cfg: case.cfg.clone(), ..Default::default() };
    let spec_q = RunSpec { prog: q.clone(), cfg: case.cfg.clone(), keep: Some(0), ..Default::default() };
    let fresh = |script: Script| -> Result<script::ScriptResult, Verdict> {
        match script::run_fresh(&script) {
            Ok(r) => Ok(r),
            Err(script::SubErr::Signal(sig)) => Err(Verdict::pass().fail("process_abort", format!("the child process died from signal {}", sig))),
            Err(script::SubErr::Other(e)) => Err(Verdict::skip(&format!("subrun: {}", e))),
        }
    };
    let alone = match fresh(Script { steps: vec![Step { runs: vec![spec_p.clone()], parallel: false }] }) {
        Ok(mut r) => normalise(&r.remove(0).remove(0)),
        Err(x) => return x,
    };
    v.loom_iters = alone.iters as u64;
    v.label(&format!("mode_{}", mode));
    if p.has(|o| matches!(o, Op::TlsWith { .. } | Op::TlsBump { .. } | Op::TlsNested { .. })) {
        v.label("tls");
    }
    if p.has(|o| matches!(o, Op::LazyGet { .. } | Op::LazyCellRead { .. })) {
        v.label("lazy");
    }
    if let Some(m) = invariants(p, &alone) {
        return v.fail("iteration_invariant", m);
    }
    let nthreads = case.x.n.unwrap_or(2).max(2) as usize;
    let script = match mode.as_str() {
        "seq" => Script { steps: vec![Step { runs: vec![spec_q.clone(), spec_p.clone()], parallel: false }] },
        "middle" => Script { steps: vec![Step { runs: vec![spec_q.clone(), spec_p.clone(), spec_q.clone(), spec_p.clone()], parallel: false }] },
        _ => {
            let mut runs = vec![spec_p.clone()];
            for i in 1..nthreads {
                runs.push(if i % 2 == 1 { spec_q.clone() } else { spec_p.clone() });
            }
            Script { steps: vec![Step { runs, parallel: true }] }
        }
    };
    let combo = match fresh(script) {
        Ok(r) => r,
        Err(x) => return x,
    };
    let mut q_failed = false;
    for (i, r) in combo[0].iter().enumerate() {
        v.loom_iters += r.iters as u64;
        let is_p = match mode.as_str() {
            "seq" => i == 1,
            "middle" => i == 1 || i == 3,
            _ => i % 2 == 0,
        };
        if !is_p {
            if r.panic.is_some() {
                q_failed = true;
            }
            continue;
        }
        let r = normalise(r);
        if r != alone {
            return v.fail(
                "depends_on_other_models",
                format!("the model run of P ({} mode, position {}) differs from P alone in a fresh process: {}", mode, i, first_diff(&alone, &r)),
            );
        }
    }
    if q_failed {
        v.label("after_failing_model");
    }
    v.nontrivial = alone.iters >= 2 && p.n_threads() >= 2;
    v.detail = serde_json::json!({"mode": mode, "P_iterations": alone.iters, "P_panic": alone.panic, "other": format!("{}", q), "os_threads": if mode == "parallel" { nthreads } else { 1 }});
    v
}
