//! C18: spin loops that yield make progress and lose no exit outcome.
//!
//! Programs in which one thread at a time busy-waits (`while x.load(o) != v { yield_now() /
//! spin_loop() }`) on a flag written once by another thread. Reference: R-AX with the await as a
//! read constrained to return the awaited value. Oracle: the run completes without hitting the
//! branch limit, `A(P) ⊆ L(P) ⊆ U(P)` over the values read after (and around) the loops; a loop
//! whose condition can never become true must end in the documented branch-limit panic.

use crate::case::*;
use crate::dsl::*;
use crate::gen::Src;
use crate::props::sc::panic_kind;
use crate::{interp, refax};
use std::collections::BTreeSet;

const LO: [MO; 3] = [MO::Acq, MO::Rlx, MO::Sc];
const SO: [MO; 3] = [MO::Rel, MO::Rlx, MO::Sc];

pub fn await_prog(s: &mut Src, never: bool) -> Program {
    await_prog2(s, never, false)
}

/// `yields`: unconditional yields (do-while loops `loop { yield; if cond { break } }` and bare
/// yields) are placed in the waiter; the caller makes every access SeqCst.
pub fn await_prog2(s: &mut Src, never: bool, yields: bool) -> Program {
    // locations: 0,1 = flags, 2 = data
    let two = s.chance(1, 2);
    let spin = s.chance(1, 2);
    let mut w: Vec<Op> = vec![];
    let mut waiter: Vec<Op> = vec![];
    // writer
    if s.chance(2, 3) {
        w.push(Op::Store { a: 2, v: 1, o: s.of(&SO) });
    }
    w.push(Op::Store { a: 0, v: 1, o: s.of(&SO) });
    let mut w2: Vec<Op> = vec![];
    if two {
        let tgt = if s.chance(1, 2) { &mut w } else { &mut w2 };
        if s.chance(1, 2) {
            tgt.push(Op::Store { a: 2, v: 2, o: s.of(&SO) });
        }
        tgt.push(Op::Store { a: 1, v: 1, o: s.of(&SO) });
    }
    if s.chance(1, 4) {
        w.insert(s.pick(w.len() + 1).max(1) - 0, Op::Fence { o: s.of(&[MO::Rel, MO::AcqRel, MO::Acq]) });
    }
    // waiter
    if s.chance(1, 3) {
        waiter.push(Op::Load { a: 2, o: s.of(&LO) });
    }
    // do-while form (`loop { yield; if cond { break } }`)
    let do_while = yields;
    if do_while {
        if s.chance(1, 2) {
            waiter.push(Op::Load { a: 3, o: s.of(&LO) });
            let at = s.pick(w.len() + 1);
            w.insert(at, Op::Store { a: 3, v: 1, o: s.of(&SO) });
        }
        if s.chance(3, 4) {
            waiter.push(Op::Yield);
        }
    }
    waiter.push(Op::Await { a: 0, v: 1, o: s.of(&LO), spin });
    if s.chance(2, 3) {
        waiter.push(Op::Load { a: 2, o: s.of(&LO) });
    }
    if two {
        if s.chance(1, 2) {
            waiter.push(Op::Load { a: 1, o: s.of(&LO) });
        }
        if do_while && s.chance(1, 2) {
            waiter.push(Op::Yield);
        }
        waiter.push(Op::Await { a: 1, v: 1, o: s.of(&LO), spin: s.chance(1, 2) });
        waiter.push(Op::Load { a: 2, o: s.of(&LO) });
        if s.chance(1, 2) {
            // re-read the first flag after the second loop
            waiter.push(Op::Load { a: 0, o: s.of(&LO) });
        }
    }
    if never {
        // the awaited value is never written: change the value the (last) loop waits for
        if let Some(Op::Await { v, .. }) = waiter.iter_mut().rev().find(|o| matches!(o, Op::Await { .. })) {
            *v = 7;
        }
    }
    let mut threads: Vec<Vec<Op>> = vec![vec![]];
    let waiter_in_main = s.chance(1, 3);
    threads.push(w);
    if !w2.is_empty() {
        threads.push(w2);
    }
    if s.chance(1, 5) {
        threads.push(vec![Op::Load { a: 0, o: s.of(&LO) }, Op::Load { a: 2, o: s.of(&LO) }]);
    }
    if !waiter_in_main {
        threads.push(waiter.clone());
    }
    let n = threads.len();
    let mut main: Vec<Op> = (1..n).map(|t| Op::Spawn { t: t as u8 }).collect();
    if waiter_in_main {
        main.extend(waiter);
    }
    if s.chance(1, 2) || !waiter_in_main {
        for t in 1..n {
            main.push(Op::Join { t: t as u8 });
        }
        main.push(Op::Load { a: 2, o: MO::Rlx });
    }
    threads[0] = main;
    Program { threads, rx_owner: 0, arc_owner: vec![] }
}

fn all_sc(p: &mut Program) {
    for th in p.threads.iter_mut() {
        th.retain(|o| !matches!(o, Op::Fence { .. }));
        for op in th.iter_mut() {
            match op {
                Op::Load { o, .. } | Op::Store { o, .. } | Op::Await { o, .. } => *o = MO::Sc,
                _ => {}
            }
        }
    }
}

pub fn build(draws: &[u16], tier: Tier) -> Case {
    let mut s = Src::new(draws);
    let never = s.chance(1, 8);
    let dw = !never && s.chance(1, 3);
    let mut prog = await_prog2(&mut s, never, dw);
    if dw {
        all_sc(&mut prog);
    }
    let wt = prog.threads.iter().position(|t| t.iter().any(|o| matches!(o, Op::Await { .. }))).unwrap_or(0);
    if s.chance(1, 5) {
        // the loops of the waiter also count their polls (a successful RMW in every iteration)
        let at = prog.threads[wt].iter().position(|o| matches!(o, Op::Await { .. })).unwrap_or(0);
        prog.threads[wt].insert(at, Op::LoopCounter);
    }
    let mut controls = false;
    if !never && !dw && s.chance(1, 8) {
        // the loop runs with exploration switched off (a set-up phase): it must still terminate
        let at = prog.threads[wt].iter().position(|o| matches!(o, Op::Await { .. })).unwrap_or(0);
        prog.threads[wt].insert(at + 1, Op::Explore);
        prog.threads[wt].insert(at, Op::StopExploring);
        controls = true;
    }
    let mut c = Case::new("C18", if never { "never-true" } else if dw { "do-while-sc" } else if controls { "await-unexplored" } else { "await" }, prog);
    c.cfg.max_permutations = Some(tier.iter_cap());
    c.cfg.max_branches = if never { 300 } else { 4000 };
    c
}

fn set_str(s: &BTreeSet<Outcome>) -> Vec<String> {
    s.iter().take(40).map(fmt_outcome).collect()
}

pub fn eval(case: &Case) -> Verdict {
    let p = &case.prog;
    let mut v = Verdict::pass();
    if let Err(e) = p.well_formed() {
        return Verdict::skip(&format!("ill-formed: {}", e));
    }
    if p.has(|o| matches!(o, Op::Yield)) {
        return eval_sc(case);
    }
    if !refax::supports(p) {
        return Verdict::skip("outside R-AX fragment");
    }
    let br = refax::bracket(p, 30_000_000);
    if br.a.truncated || br.u.truncated {
        return Verdict::skip("reference budget");
    }
    v.ref_states = (br.a.execs + br.u.execs) as u64;
    let run = interp::collect(p, &case.cfg, false);
    v.loom_iters = run.report.iters as u64;
    if run.report.capped {
        return Verdict::skip("capped");
    }
    let l: BTreeSet<Outcome> = run.outcomes.keys().cloned().collect();
    v.label(&format!("threads{}", p.n_threads()));
    let nawait = p.count(|o| matches!(o, Op::Await { .. }));
    v.label(&format!("awaits{}", nawait));
    if p.has(|o| matches!(o, Op::Await { spin: true, .. })) {
        v.label("spin_loop_hint");
    }
    if p.has(|o| matches!(o, Op::Await { spin: false, .. })) {
        v.label("yield_now");
    }
    if matches!(p.threads[0].iter().find(|o| matches!(o, Op::Await { .. })), Some(_)) {
        v.label("waiter_is_main");
    }
    let never = br.u.outcomes.is_empty();
    v.detail = serde_json::json!({"A": set_str(&br.a.outcomes), "U": set_str(&br.u.outcomes), "L": set_str(&l), "loom": {"iterations": run.report.iters, "panic": run.report.panic}});
    if never {
        v.label("condition_never_true");
        v.nontrivial = true;
        return match &run.report.panic {
            Some(m) if panic_kind(m) == "branch_limit" => v,
            Some(m) => v.fail("wrong_failure", format!("the awaited value is never written; expected the branch-limit panic, got `{}`", m)),
            None => v.fail("endless_loop_cut_off", format!("the awaited value is never written but the run completed ({} iterations, results {:?})", run.report.iters, set_str(&l))),
        };
    }
    v.nontrivial = br.a.outcomes.len() >= 2;
    if let Some(m) = &run.report.panic {
        let k = panic_kind(m);
        return v.fail(
            if k == "branch_limit" { "branch_limit_hit" } else { "unexpected_panic" },
            format!("the awaited value is written in every execution but the run panicked with `{}`", m),
        );
    }
    let a_op = br.a_op.as_ref().map(|r| &r.outcomes).unwrap_or(&br.a.outcomes);
    if a_op.len() != br.a.outcomes.len() {
        v.label("class:operational_order");
    }
    if p.has(|o| matches!(o, Op::LoopCounter)) {
        v.label("loop_counts_polls");
    }
    if let Some(x) = l.iter().find(|x| !br.u.outcomes.contains(*x)) {
        return v.fail("forbidden_outcome", format!("values read around the loop that C11/RC11 forbids: {}", fmt_outcome(x)));
    }
    if p.has(|o| matches!(o, Op::StopExploring)) {
        // exploration is restricted on purpose: completion and validity only
        v.label("loop_in_unexplored_region");
        return v;
    }
    let missing: Vec<&Outcome> = a_op.iter().filter(|x| !l.contains(*x)).collect();
    if missing.is_empty() {
        if let Some(m) = br.a.outcomes.iter().find(|x| !l.contains(*x)) {
            return v.fail(if crate::known::cas_other_writer(p) { "missing_outcome_cas_order" } else { "missing_outcome_fence_order" }, format!("an exit outcome of the loop is never explored, and every execution producing it orders SeqCst events against po ∪ rf: {}", fmt_outcome(m)));
        }
    }
    if let Some(m) = missing.first() {
        let w = br.a.witness.get(*m).cloned().unwrap_or_default();
        v.detail["missing"] = serde_json::json!(missing.iter().map(|o| fmt_outcome(o)).collect::<Vec<_>>());
        return v.fail("missing_outcome", format!("an exit outcome of the loop is never explored: {} (witness: {}); {} of {} missing", fmt_outcome(m), w, missing.len(), a_op.len()));
    }
    v
}

/// All-SeqCst programs with unconditional yields (do-while loops).
///
/// May-direction: `L(P) ⊆ U(P)` as for the other families (loom documents that it treats SeqCst
/// accesses as acquire/release, so the interleaving reference is not an upper bound).
/// Must-direction, only when exactly one other thread can run while the waiter is alive (so that
/// the documented yield semantics - "another thread needs to be scheduled in order for the current
/// one to make progress" - leaves no choice of who makes progress): `Ry(P) ⊆ L(P)`, Ry = all
/// interleavings in which the yielding thread sits out the next scheduling decision when another
/// thread can run (scheduling a thread that has not started yet takes it to its first operation).
fn eval_sc(case: &Case) -> Verdict {
    let p = &case.prog;
    let mut v = Verdict::pass();
    let all_sc = !p.has(|o| match o {
        Op::Load { o, .. } | Op::Store { o, .. } | Op::Await { o, .. } => *o != MO::Sc,
        Op::Fence { .. } => true,
        _ => false,
    });
    if !all_sc {
        return Verdict::skip("unconditional yields are only decided for all-SeqCst programs");
    }
    if !refax::supports(p) {
        return Verdict::skip("outside R-AX fragment");
    }
    let br = refax::bracket(p, 30_000_000);
    let mut opts = crate::refsc::Opts::new();
    opts.max_states = 2_000_000;
    opts.yield_sem = true;
    let r = crate::refsc::explore(p, opts);
    if r.truncated || br.u.truncated {
        return Verdict::skip("reference budget");
    }
    v.ref_states = (r.states + br.u.execs) as u64;
    let run = interp::collect(p, &case.cfg, false);
    v.loom_iters = run.report.iters as u64;
    if run.report.capped {
        return Verdict::skip("capped");
    }
    let l: BTreeSet<Outcome> = run.outcomes.keys().cloned().collect();
    // threads that run operations concurrently with the waiter
    let waiter = p.threads.iter().position(|t| t.iter().any(|o| matches!(o, Op::Yield | Op::Await { .. }))).unwrap_or(0);
    let others = (0..p.n_threads())
        .filter(|&t| t != waiter)
        .filter(|&t| {
            // main only spawning, joining and reading after the joins does not count
            let ops = &p.threads[t];
            let first_join = ops.iter().position(|o| matches!(o, Op::Join { .. })).unwrap_or(ops.len());
            ops[..first_join].iter().any(|o| !matches!(o, Op::Spawn { .. }))
        })
        .count();
    let must = others == 1;
    v.label(&format!("threads{}", p.n_threads()));
    v.label("do_while");
    v.label(if must { "do_while_must" } else { "do_while_may_only" });
    v.label(&format!("awaits{}", p.count(|o| matches!(o, Op::Await { .. }))));
    v.detail = serde_json::json!({"U": set_str(&br.u.outcomes), "Ry": set_str(&r.outcomes), "Ry_robust": set_str(&r.robust_outcomes), "L": set_str(&l), "must_direction": must,
        "reference": "R-AX U / R-SC with yield semantics", "loom": {"iterations": run.report.iters, "panic": run.report.panic}});
    v.nontrivial = r.outcomes.len() >= 2;
    if br.u.outcomes.is_empty() || r.outcomes.is_empty() || r.deadlock {
        return Verdict::skip("reference: the awaited value is not written in every execution");
    }
    if let Some(m) = &run.report.panic {
        let k = panic_kind(m);
        return v.fail(
            if k == "branch_limit" { "branch_limit_hit" } else { "unexpected_panic" },
            format!("the awaited value is written in every execution but the run panicked with `{}`", m),
        );
    }
    if let Some(x) = l.iter().find(|x| !br.u.outcomes.contains(*x)) {
        return v.fail("forbidden_outcome", format!("values read around the loop that C11/RC11 forbids: {}", fmt_outcome(x)));
    }
    if must {
        // (outcomes that need the yielding thread placed between two operations of the writer
        // neither of which it conflicts with are the recorded finding F13: only the robust ones are demanded)
        let missing: Vec<&Outcome> = r.robust_outcomes.iter().filter(|x| !l.contains(*x)).collect();
        if r.robust_outcomes.len() < r.outcomes.len() {
            v.label("class:nonrobust_yield_placement");
        }
        if let Some(m) = missing.first() {
            v.detail["missing"] = serde_json::json!(missing.iter().map(|o| fmt_outcome(o)).collect::<Vec<_>>());
            return v.fail("missing_outcome", format!("an exit outcome of the do-while loop is never explored: {}; {} of {} missing", fmt_outcome(m), missing.len(), r.robust_outcomes.len()));
        }
        if let Some(m) = r.outcomes.iter().find(|x| !l.contains(*x)) {
            return v.fail(
                "missing_outcome_yield_placement",
                format!("an exit outcome of the do-while loop is never explored, and every execution producing it places the yielding thread between two operations of the writer that it does not conflict with: {}", fmt_outcome(m)),
            );
        }
    }
    v
}
