//! C02 (every RC11-allowed outcome is explored: A(P) ⊆ L(P)) and
//! C03 (every explored outcome is allowed: L(P) ⊆ U(P)).

use crate::case::*;
use crate::dsl::*;
use crate::gen::{self, LitmusParams, Src};
use crate::{interp, known, refax, refsc};
use std::collections::BTreeSet;

pub fn params(tier: Tier, quarantined: bool) -> LitmusParams {
    LitmusParams {
        sc_only: false,
        fences: true,
        rmw: true,
        free_mix: quarantined,
        max_threads: 3,
        max_events: if tier == Tier::Thorough { 7 } else { 6 },
        joins: true,
        late_spawn: false,
    }
}

pub fn build(prop: &str, draws: &[u16], tier: Tier) -> Case {
    let mut s = Src::new(draws);
    // stream selection: 0..=5 main stream (shape / free-form), 6 quarantined (known-defect classes)
    let sel = s.pick(10);
    let (family, prog) = match sel {
        // (C02 only) every thread also drops a handle of a `loom::sync::Arc` somewhere in its body; no
        // drop is the last one (main keeps a handle until it has joined everybody), so like
        // `fetch_sub(1, Release)` in std the drops order nothing: the must-set is that of the program
        // without them
        9 if prop == "C02" => ("arc-drops", {
            let mut lp = params(tier, false);
            lp.joins = true;
            lp.late_spawn = false;
            lp.max_threads = 2;
            let mut p = if s.chance(2, 3) { gen::litmus_chain(&mut s, &lp) } else { gen::litmus(&mut s, &lp) };
            p.arc_owner = vec![0];
            let n = p.n_threads();
            let first_spawn = p.threads[0].iter().position(|o| matches!(o, Op::Spawn { .. })).unwrap_or(0);
            for t in (0..n).rev() {
                p.threads[0].insert(first_spawn, Op::ArcClone { x: 0, to: t as u8 });
            }
            for t in 1..n {
                // preferably between two operations of the thread
                let len = p.threads[t].len();
                let at = if len >= 2 && s.chance(3, 4) { 1 + s.pick(len - 1) } else { s.pick(len + 1) };
                p.threads[t].insert(at, Op::ArcDrop { x: 0 });
            }
            let lo = p.threads[0].iter().rposition(|o| matches!(o, Op::Spawn { .. })).map(|i| i + 1).unwrap_or(0);
            let hi = p.threads[0].iter().position(|o| matches!(o, Op::Join { .. })).unwrap_or(p.threads[0].len());
            let at = lo + s.pick(hi.saturating_sub(lo) + 1);
            p.threads[0].insert(at, Op::ArcDrop { x: 0 });
            p
        }),
        // (C03 only: the may-direction does not mind that loom forgets stores) main stores to the
        // flag location 5-8 times before spawning, so that the 7-entry store history of the location
        // wraps around while the threads run
        9 if prop == "C03" => ("long-history", {
            let lp = params(tier, false);
            let mut p = if s.chance(2, 3) { gen::litmus_chain(&mut s, &lp) } else { gen::litmus_shape(&mut s, &lp) };
            let events = |p: &Program| p.count(|_| true) + p.n_atomics();
            if events(&p) > 22 {
                // R-AX handles 32 events: fall back to a small message-passing base
                let f = s.of(&[MO::Acq, MO::AcqRel, MO::Sc]);
                p = Program {
                    threads: vec![
                        vec![Op::Spawn { t: 1 }, Op::Spawn { t: 2 }],
                        vec![Op::Store { a: 1, v: 1, o: MO::Rlx }, Op::Store { a: 0, v: 1, o: s.of(&[MO::Rel, MO::Sc]) }, Op::Store { a: 0, v: 2, o: MO::Rlx }],
                        vec![Op::Load { a: 0, o: MO::Rlx }, Op::Fence { o: f }, Op::Load { a: 1, o: MO::Rlx }],
                    ],
                    rx_owner: 0,
                    arc_owner: vec![],
                };
            }
            let k = s.range(5, 8).min(30 - events(&p));
            let a = if s.chance(3, 4) { 0 } else { 1 };
            for i in 0..k {
                p.threads[0].insert(i, Op::Store { a, v: 10 + i as u8, o: if s.chance(1, 4) { MO::Rel } else { MO::Rlx } });
            }
            p
        }),
        // all-SeqCst programs without fences: here the two references (R-SC interleavings and R-AX in its
        // strongest reading) must coincide - a cross-check of the oracles themselves
        8 => ("sc-only", {
            let mut lp = params(tier, false);
            lp.sc_only = true;
            lp.fences = false;
            gen::litmus(&mut s, &lp)
        }),
        0 | 1 => ("shape", gen::litmus_shape(&mut s, &params(tier, false))),
        2 | 3 => ("chain", gen::litmus_chain(&mut s, &params(tier, false))),
        4 | 5 | 6 => ("free", gen::litmus(&mut s, &params(tier, false))),
        _ => ("quarantine", gen::litmus(&mut s, &params(tier, true))),
    };
    let mut c = Case::new(prop, family, prog);
    c.cfg.max_permutations = Some(tier.iter_cap());
    c.cfg.max_branches = 5000;
    // metamorphic variant (C02 only): also run the program with the bodies of the spawned threads
    // permuted; the explored outcome sets must coincide up to that permutation
    if prop == "C02" && c.prog.n_threads() >= 3 && s.chance(1, 3) {
        c.x.n = Some(1 + s.pick(5) as i64);
    } else if prop == "C02" && s.chance(1, 8) {
        // the exploration is stopped after k iterations (max_permutations) and resumed from the
        // checkpoint file: what the two parts explore together must still be complete
        c.x.mode = Some("resume".into());
        c.x.k = Some(1 + s.pick(12) as i64);
        c.x.c = Some([1, 1, 2, 3][s.pick(4)] as i64);
    }
    c
}

/// Permute the bodies of the spawned threads (thread i of the result runs the body of thread perm[i]).
fn permute_threads(p: &Program, k: usize) -> (Program, Vec<usize>) {
    let n = p.n_threads();
    // k-th rotation / reversal of 1..n
    let mut idx: Vec<usize> = (1..n).collect();
    match k % 3 {
        0 => idx.reverse(),
        1 => idx.rotate_left(1),
        _ => idx.rotate_right(1),
    }
    let mut perm = vec![0usize];
    perm.extend(idx);
    let mut q = p.clone();
    for i in 1..n {
        q.threads[i] = p.threads[perm[i]].clone();
    }
    (q, perm)
}

fn set_str(s: &BTreeSet<Outcome>) -> Vec<String> {
    s.iter().map(fmt_outcome).collect()
}

/// Shared evaluation; `must` selects C02 (A ⊆ L) vs C03 (L ⊆ U).
pub fn eval(case: &Case, must: bool) -> Verdict {
    let pfull = &case.prog;
    // long-history programs: of the stores main performs before it spawns anything only the last one
    // per location can be read by anybody (the others are overwritten in happens-before order), so
    // the reference is computed for the program without them
    let reduced: Program;
    let p = if case.family == "arc-drops" {
        let mut q = pfull.clone();
        for th in q.threads.iter_mut() {
            th.retain(|o| !matches!(o, Op::ArcClone { .. } | Op::ArcDrop { .. }));
        }
        q.arc_owner.clear();
        reduced = q;
        &reduced
    } else if case.family == "long-history" {
        let mut q = pfull.clone();
        let first_spawn = q.threads[0].iter().position(|o| matches!(o, Op::Spawn { .. })).unwrap_or(0);
        let mut keep: Vec<bool> = vec![true; q.threads[0].len()];
        for i in 0..first_spawn {
            if let Op::Store { a, .. } = q.threads[0][i] {
                if q.threads[0][i + 1..first_spawn].iter().any(|o| matches!(o, Op::Store { a: b, .. } if *b == a)) {
                    keep[i] = false;
                }
            }
        }
        let mut k = keep.iter();
        q.threads[0].retain(|_| *k.next().unwrap());
        reduced = q;
        &reduced
    } else {
        pfull
    };
    let mut v = Verdict::pass();
    if let Err(e) = p.well_formed() {
        return Verdict::skip(&format!("ill-formed: {}", e));
    }
    if !refax::supports(p) {
        return Verdict::skip("outside R-AX fragment");
    }
    let br = refax::bracket(p, 30_000_000);
    if br.a.truncated || br.u.truncated {
        return Verdict::skip("reference budget");
    }
    v.ref_states = (br.a.execs + br.u.execs) as u64;
    // internal sanity of the bracket (oracle self-check): A ⊆ U
    if !br.a.outcomes.is_subset(&br.u.outcomes) {
        return Verdict::skip("ORACLE-BUG: A not subset of U");
    }
    let run = if must && case.x.mode.as_deref() == Some("resume") {
        let file = crate::script::scratch_file("c02ckpt");
        let _ = std::fs::remove_file(&file);
        let mut cfg = case.cfg.clone();
        cfg.checkpoint_interval = case.x.c.unwrap_or(1).max(1) as usize;
        let mut c1 = cfg.clone();
        c1.max_permutations = Some(case.x.k.unwrap_or(1).max(1) as usize);
        let mut r1 = interp::collect_with(pfull, &c1, interp::RunOpts { checkpoint_file: Some(file.clone()), ..Default::default() }, false);
        let r2 = interp::collect_with(pfull, &cfg, interp::RunOpts { checkpoint_file: Some(file.clone()), ..Default::default() }, false);
        let _ = std::fs::remove_file(&file);
        v.label("stopped_and_resumed");
        for (o, n) in r2.outcomes {
            *r1.outcomes.entry(o).or_insert(0) += n;
        }
        r1.report.iters += r2.report.iters;
        r1.report.capped = r2.report.capped;
        if r1.report.panic.is_none() {
            r1.report.panic = r2.report.panic;
        }
        r1
    } else {
        interp::collect(pfull, &case.cfg, false)
    };
    v.loom_iters = run.report.iters as u64;
    if run.report.capped {
        return Verdict::skip("capped");
    }
    let l: BTreeSet<Outcome> = run.outcomes.keys().cloned().collect();
    // labels
    v.label(&format!("threads{}", p.n_threads()));
    if p.has(|o| matches!(o, Op::Fence { .. })) {
        v.label("fence");
    }
    if p.has(|o| matches!(o, Op::Swap { .. } | Op::FetchAdd { .. } | Op::Cas { .. })) {
        v.label("rmw");
    }
    if p.has(|o| matches!(o, Op::Cas { .. })) {
        v.label("cas");
    }
    let kclass = known::atomics_class(p);
    if let Some(k) = &kclass {
        v.label(&format!("class_{}", k));
    }
    // non-triviality
    if must {
        let mut o = refsc::Opts::new();
        o.max_states = 200_000;
        let sc = refsc::explore(p, o);
        // oracle cross-check on sequentially consistent programs
        // (main's final loads after the last join are relaxed; they are ordered after everything)
        let last_join = p.threads[0].iter().rposition(|o| matches!(o, Op::Join { .. })).unwrap_or(usize::MAX);
        let all_sc = !sc.truncated
            && p.ops().filter(|(t, i, _)| !(*t == 0 && last_join != usize::MAX && *i > last_join)).all(|(_, _, o)| match o {
                Op::Load { o, .. } | Op::Store { o, .. } | Op::Swap { o, .. } | Op::FetchAdd { o, .. } => *o == MO::Sc,
                Op::Cas { s, f, .. } => *s == MO::Sc && *f == MO::Sc,
                Op::Fence { .. } | Op::Await { .. } => false,
                _ => true,
            });
        if all_sc {
            v.label("oracle_crosscheck_sc");
            if sc.outcomes != br.a.outcomes {
                return Verdict::skip(&format!(
                    "ORACLE-BUG: on an all-SeqCst program the interleaving reference and the axiomatic reference disagree: R-SC {:?} vs R-AX {:?}",
                    set_str(&sc.outcomes), set_str(&br.a.outcomes)
                ));
            }
        }
        let weak = br.a.outcomes.iter().any(|x| !sc.outcomes.contains(x));
        if weak {
            v.label("weak_outcome_required");
        }
        v.nontrivial = weak && !sc.truncated;
    } else {
        // U forbids something: fewer outcomes than "every read returns any value written"
        let total_product = product_size(p);
        v.nontrivial = (br.u.outcomes.len() as u64) < total_product;
        if v.nontrivial {
            v.label("model_forbids_something");
        }
    }
    if let Some(pm) = &run.report.panic {
        // an atomics-only program never panics
        v.detail = serde_json::json!({"panic": pm});
        return v.fail("unexpected_panic", format!("model panicked: {}", pm));
    }
    v.detail = serde_json::json!({
        "A": set_str(&br.a.outcomes), "U": set_str(&br.u.outcomes), "L": set_str(&l),
    });
    if must {
        // outcomes that need the SeqCst fences ordered against the execution order (finding F12)
        let a_op = br.a_op.as_ref().map(|r| &r.outcomes).unwrap_or(&br.a.outcomes);
        if a_op.len() != br.a.outcomes.len() {
            v.label("class:operational_order");
        }
        let missing_all: Vec<&Outcome> = br.a.outcomes.iter().filter(|o| !l.contains(*o)).collect();
        let missing: Vec<&Outcome> = a_op.iter().filter(|o| !l.contains(*o)).collect();
        if missing.is_empty() {
            if let Some(m) = missing_all.first() {
                let w = br.a.witness.get(*m).cloned().unwrap_or_default();
                v.detail["missing"] = serde_json::json!(missing_all.iter().map(|o| fmt_outcome(o)).collect::<Vec<_>>());
                let cas = known::cas_other_writer(p);
                return v.fail(
                    if cas { "missing_outcome_cas_order" } else { "missing_outcome_fence_order" },
                    format!(
                        "RC11-consistent outcome never explored, and every execution producing it needs {} against the execution order (po ∪ rf): {}  (witness: {})",
                        if cas { "a failing compare_exchange to read a store that is not the newest one, or SeqCst events ordered" } else { "SeqCst events ordered" },
                        fmt_outcome(m), w
                    ),
                );
            }
        }
        if let Some(m) = missing.first() {
            let w = br.a.witness.get(*m).cloned().unwrap_or_default();
            let msg = format!(
                "RC11-consistent outcome never explored: {}  (witness: {})  missing {} of {} required; loom explored {} distinct in {} iterations",
                fmt_outcome(m), w, missing.len(), br.a.outcomes.len(), l.len(), run.report.iters
            );
            v.detail["missing"] = serde_json::json!(missing.iter().map(|o| fmt_outcome(o)).collect::<Vec<_>>());
            v.detail["witness"] = serde_json::json!(w);
            return v.fail("missing_outcome", msg);
        }
        // metamorphic: thread symmetry
        if let Some(k) = case.x.n {
            let (q, perm) = permute_threads(p, k as usize);
            if q != *p {
                let run2 = interp::collect(&q, &case.cfg, false);
                v.loom_iters += run2.report.iters as u64;
                if !run2.report.capped && run2.report.panic.is_none() {
                    v.label("thread_permutation_checked");
                    // map outcomes of q back: results of q's thread i belong to p's thread perm[i]
                    let mapped: BTreeSet<Outcome> = run2
                        .outcomes
                        .keys()
                        .map(|o| {
                            let mut r = o.clone();
                            for i in 1..perm.len() {
                                r[perm[i]] = o[i].clone();
                            }
                            r
                        })
                        .collect();
                    if let Some(x) = mapped.iter().find(|x| !l.contains(*x) && br.u.outcomes.contains(*x)) {
                        v.detail["permuted_program"] = serde_json::json!(format!("{}", q));
                        return v.fail(
                            "missing_outcome_vs_permuted",
                            format!(
                                "outcome {} is explored when the bodies of the spawned threads are permuted ({}) but never for the program itself, although C11 allows it",
                                fmt_outcome(x), q
                            ),
                        );
                    }
                }
            }
        }
    } else {
        let forbidden: Vec<&Outcome> = l.iter().filter(|o| !br.u.outcomes.contains(*o)).collect();
        // inside K7a / K7b: what the recorded modification-order defects can explain is bounded by the
        // enumeration with the K7 locations' modification order left unconstrained
        let loose = known::k7_locations(p);
        if !forbidden.is_empty() && loose != 0 {
            let ul = refax::enumerate_loose(p, true, false, false, loose, 30_000_000);
            if !ul.truncated {
                if let Some(m) = forbidden.iter().find(|o| !ul.outcomes.contains(**o)) {
                    v.detail["forbidden"] = serde_json::json!(forbidden.iter().map(|o| fmt_outcome(o)).collect::<Vec<_>>());
                    return v.fail(
                        "forbidden_outcome_beyond_mo",
                        format!(
                            "explored outcome is forbidden by C11/RC11 even when the modification order of the locations affected by the recorded findings F7a/F7b is left unconstrained: {}",
                            fmt_outcome(m)
                        ),
                    );
                }
            }
        }
        if let Some(m) = forbidden.first() {
            let msg = format!(
                "explored outcome is forbidden by C11/RC11 (every reads-from / modification-order candidate violates coherence, atomicity, hb or psc): {}  ({} forbidden of {} explored)",
                fmt_outcome(m), forbidden.len(), l.len()
            );
            v.detail["forbidden"] = serde_json::json!(forbidden.iter().map(|o| fmt_outcome(o)).collect::<Vec<_>>());
            return v.fail("forbidden_outcome", msg);
        }
    }
    v
}

/// Number of result tuples if every read could return any value written to its location
/// (upper bound used only for the non-triviality rule of C03).
fn product_size(p: &Program) -> u64 {
    let nl = p.n_atomics();
    let mut writes = vec![1u64; nl]; // init
    for (_, _, op) in p.ops() {
        match op {
            Op::Store { a, .. } | Op::Swap { a, .. } | Op::FetchAdd { a, .. } | Op::Cas { a, .. } => writes[*a as usize] += 1,
            _ => {}
        }
    }
    let mut n: u64 = 1;
    for (_, _, op) in p.ops() {
        match op {
            Op::Load { a, .. } | Op::Swap { a, .. } | Op::FetchAdd { a, .. } | Op::Cas { a, .. } => {
                n = n.saturating_mul(writes[*a as usize])
            }
            _ => {}
        }
    }
    n
}
