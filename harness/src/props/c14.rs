//! C14: exploration terminates and never repeats an execution.
//!
//! The iteration hook (feature `verif`) delivers the complete decision path at the end of every
//! iteration and the prefix prepared for the next one. Oracle:
//!  1. reference step function: an independent re-implementation of "advance the deepest branch
//!     that still has an unexplored alternative, drop everything after it" applied to the
//!     end-of-iteration snapshot must predict exactly the prepared prefix, and must predict
//!     "exhausted" exactly when the model returns;
//!  2. decision sequences (thread chosen / store read / spurious flag) of all iterations are
//!     pairwise distinct;
//!  3. iteration i+1 replays the prepared prefix and consecutive paths strictly increase in
//!     depth-first (lexicographic by alternative rank) order;
//!  4. the number of iterations equals the number of distinct paths and the hook saw every iteration.

use crate::case::*;
use crate::gen::{self, Src, SyncParams};
use crate::interp;
use loom::verif::{Branch, Phase, ThreadStatus};
use std::collections::HashSet;
use std::sync::{Arc, Mutex};

/// One decision: (kind, choice)
pub fn decisions(path: &[Branch]) -> Vec<(u8, u8)> {
    path.iter()
        .map(|b| match b {
            Branch::Schedule { threads, .. } => {
                (0u8, threads.iter().position(|t| *t == ThreadStatus::Active).map(|i| i as u8).unwrap_or(255))
            }
            Branch::Load { values, pos, .. } => (1u8, values.get(*pos as usize).cloned().unwrap_or(255)),
            Branch::Spurious { spur, .. } => (2u8, *spur as u8),
        })
        .collect()
}

/// Rank of the chosen alternative among the alternatives of the branch (depth-first order).
fn ranks(path: &[Branch]) -> Vec<u32> {
    path.iter()
        .map(|b| match b {
            Branch::Schedule { threads, .. } => threads.iter().filter(|t| **t == ThreadStatus::Visited).count() as u32,
            Branch::Load { pos, .. } => *pos as u32,
            Branch::Spurious { spur, .. } => *spur as u32,
        })
        .collect()
}

/// The reference step function: index of the deepest explored branch that still has an
/// unexplored alternative. `None` = exhausted.
pub fn ref_advance_point(end: &[Branch]) -> Option<usize> {
    for k in (0..end.len()).rev() {
        let open = match &end[k] {
            Branch::Schedule { threads, exploring, .. } => *exploring && threads.iter().any(|t| *t == ThreadStatus::Pending),
            Branch::Load { values, pos, exploring } => *exploring && (*pos as usize + 1) < values.len(),
            Branch::Spurious { spur, exploring } => *exploring && !*spur,
        };
        if open {
            return Some(k);
        }
    }
    None
}

/// Is `new` a legal advance of branch `old` (the alternative taken so far is marked explored and a
/// not yet explored alternative is chosen; which one is not prescribed)?
pub fn legal_advance(old: &Branch, new: &Branch) -> bool {
    match (old, new) {
        (
            Branch::Schedule { threads: a, preemptions: pa, initial_active: ia, exploring: ea },
            Branch::Schedule { threads: b, preemptions: pb, initial_active: ib, exploring: eb },
        ) => {
            if pa != pb || ia != ib || ea != eb || a.len() != b.len() {
                return false;
            }
            let mut new_active = 0;
            for (x, y) in a.iter().zip(b.iter()) {
                match (x, y) {
                    (ThreadStatus::Active, ThreadStatus::Visited) => {}
                    (ThreadStatus::Pending, ThreadStatus::Active) => new_active += 1,
                    (x, y) if x == y && *x != ThreadStatus::Active => {}
                    _ => return false,
                }
            }
            new_active == 1
        }
        (Branch::Load { values: a, pos: pa, exploring: ea }, Branch::Load { values: b, pos: pb, exploring: eb }) => {
            a == b && ea == eb && *pb == *pa + 1 && (*pb as usize) < b.len()
        }
        (Branch::Spurious { spur: a, exploring: ea }, Branch::Spurious { spur: b, exploring: eb }) => !*a && *b && ea == eb,
        _ => false,
    }
}

#[derive(Default)]
struct Rec {
    ends: Vec<(usize, Vec<Branch>)>,
    nexts: Vec<(usize, Vec<Branch>)>,
}

pub fn build(draws: &[u16], tier: Tier) -> Case {
    let mut s = Src::new(draws);
    let extra = if tier == Tier::Thorough { 1 } else { 0 };
    let sp = SyncParams { max_threads: 2, max_ops: 6, ..Default::default() };
    let (family, prog) = match s.pick(8) {
        0 | 1 => ("litmus", gen::litmus(&mut s, &crate::props::ax::params(tier, true))),
        2 => ("litmus-shape", gen::litmus_shape(&mut s, &crate::props::ax::params(tier, false))),
        3 => ("mutex-rwlock", gen::sync_prog(&mut s, &SyncParams { mutex: true, rwlock: true, try_lock: true, try_rw: true, max_threads: 3, max_ops: 6 + extra, ..sp.clone() })),
        4 => ("condvar-notify", gen::sync_prog(&mut s, &SyncParams { condvar: true, notify: true, max_threads: 3, max_ops: 6 + extra, joins: true, ..sp.clone() })),
        5 => ("channel-park", gen::sync_prog(&mut s, &SyncParams { channel: true, park: true, yields: true, max_threads: 3, max_ops: 6 + extra, joins: true, ..sp.clone() })),
        6 => ("mixed", gen::sync_prog(&mut s, &SyncParams { mutex: true, channel: true, atomics: true, notify: true, max_threads: 3, max_ops: 7 + extra, ..sp.clone() })),
        _ => ("await", crate::props::c04::race_prog(&mut s)),
    };
    let mut c = Case::new("C14", family, prog);
    c.cfg.max_permutations = Some(if tier == Tier::Quick { 20_000 } else { 150_000 });
    c.cfg.checkpoint_interval = 1;
    c.cfg.max_branches = 5000;
    if s.chance(1, 4) {
        c.cfg.preemption_bound = Some(s.range(0, 3));
    }
    if s.chance(1, 8) {
        // the walk is stopped after k iterations and resumed from the checkpoint file in a fresh
        // process: the two parts together must still be the depth-first walk, nothing repeated
        c.x.mode = Some("resume".into());
        c.x.c = Some([1, 1, 2, 3][s.pick(4)] as i64);
        c.x.k = Some(s.pick(65536) as i64);
    }
    // Drawn last, so that every earlier draw of a case means what it meant before this family existed:
    // one case in six is replaced by a program that fills all thread slots loom has (main + 4 spawned,
    // MAX_THREADS = 5), one or two operations per thread on at most two locations, so that schedule
    // branches carry alternatives in the last slot (seeded change C14r5_a lives there).
    if s.chance(1, 6) {
        let lp = gen::LitmusParams { max_threads: 4, max_events: 5 + extra, ..crate::props::ax::params(tier, true) };
        c.prog = gen::litmus_k(&mut s, &lp, Some(4));
        c.family = "full-house".into();
    }
    c
}

pub fn eval(case: &Case) -> Verdict {
    let p = &case.prog;
    let mut v = Verdict::pass();
    if let Err(e) = p.well_formed() {
        return Verdict::skip(&format!("ill-formed: {}", e));
    }
    if case.x.mode.as_deref() == Some("resume") {
        // (the oracle of C13: the resumed part equals the rest of the uninterrupted walk, which
        // this check shows to be repetition-free for the same families)
        let mut c = case.clone();
        c.x.mode = Some("clean".into());
        c.cfg.max_permutations = None;
        c.cfg.max_branches = 5000;
        let mut v = crate::props::c13::eval(&c);
        v.labels.retain(|l| !l.starts_with("mode_"));
        v.label("stopped_and_resumed");
        return v;
    }
    let rec: Arc<Mutex<Rec>> = Arc::new(Mutex::new(Rec::default()));
    let r2 = rec.clone();
    // the hook must not be Send; it runs on this thread only
    let hook = Box::new(move |ph: Phase, i: usize, path: &[Branch]| {
        let mut r = r2.lock().unwrap();
        match ph {
            Phase::IterationEnd => r.ends.push((i, path.to_vec())),
            Phase::NextPrepared => r.nexts.push((i, path.to_vec())),
        }
    });
    let opts = interp::RunOpts { hook: Some(hook), ..Default::default() };
    let run = interp::collect_with(p, &case.cfg, opts, false);
    let iters = run.report.iters;
    v.loom_iters = iters as u64;
    let rec = rec.lock().unwrap();
    let panicked = run.report.panic.is_some();
    let capped = run.report.capped;
    v.label(&format!("threads{}", p.n_threads()));
    if capped {
        v.label("capped_prefix_only");
    }
    if panicked {
        v.label("run_panicked");
    }
    if case.cfg.preemption_bound.is_some() {
        v.label("preemption_bound");
    }
    let mut kinds_seen = [false; 3];
    for (_, path) in &rec.ends {
        for b in path {
            match b {
                Branch::Schedule { .. } => kinds_seen[0] = true,
                Branch::Load { .. } => kinds_seen[1] = true,
                Branch::Spurious { .. } => kinds_seen[2] = true,
            }
        }
    }
    let nk = kinds_seen.iter().filter(|b| **b).count();
    if kinds_seen[1] {
        v.label("load_branches");
    }
    if kinds_seen[2] {
        v.label("spurious_branches");
    }
    v.nontrivial = rec.ends.len() >= 3 && nk >= 2;
    v.detail = serde_json::json!({"iterations": iters, "hook_ends": rec.ends.len(), "hook_nexts": rec.nexts.len(), "capped": capped, "panic": run.report.panic});

    // the hook sees the end of every iteration that completed (the panicking one is not reported)
    let complete = if panicked { iters.saturating_sub(1) } else { iters };
    if rec.ends.len() != complete {
        return v.fail("hook_count", format!("{} iterations ran to completion but the hook saw {} iteration ends", complete, rec.ends.len()));
    }
    let mut seen: HashSet<Vec<(u8, u8)>> = HashSet::new();
    for (k, (i, end)) in rec.ends.iter().enumerate() {
        if *i != k + 1 {
            return v.fail("iteration_numbering", format!("hook reported iteration {} at position {}", i, k + 1));
        }
        let d = decisions(end);
        // (a schedule branch without an active thread is the terminal branch of a thread that
        // finished when nothing else was runnable: choice 255, no alternative)
        if d.iter().any(|x| x.0 == 1 && x.1 == 255) {
            return v.fail("malformed_path", format!("iteration {}: a load branch without a chosen store: {:?}", i, end));
        }
        if !seen.insert(d.clone()) {
            return v.fail("repeated_path", format!("iteration {} follows the same decision sequence as an earlier iteration: {:?}", i, d));
        }
        // reference step
        let predicted = ref_advance_point(end);
        let actual = rec.nexts.iter().find(|(j, _)| *j == *i + 1).map(|(_, q)| q.clone());
        let is_last = k + 1 == rec.ends.len();
        match (predicted, &actual) {
            (Some(kp), Some(aq)) => {
                if aq.len() != kp + 1 || aq[..kp] != end[..kp] || !legal_advance(&end[kp], &aq[kp]) {
                    return v.fail(
                        "step_mismatch",
                        format!(
                            "after iteration {} the prepared prefix is not the depth-first successor: the deepest open branch is #{} of {:?}, but loom prepared {:?}",
                            i, kp, end, aq
                        ),
                    );
                }
            }
            (None, Some(aq)) => {
                return v.fail("step_past_end", format!("after iteration {} every alternative is explored but loom prepared another iteration: {:?}", i, aq));
            }
            (Some(kp), None) => {
                // the run stopped here: legal only when the iteration cap stopped it or it panicked afterwards
                if is_last && !capped && !panicked {
                    return v.fail(
                        "stopped_early",
                        format!("the run ended after iteration {} although branch #{} still has an unexplored alternative: {:?}", i, kp, end[kp]),
                    );
                }
                if !is_last {
                    return v.fail("missing_next", format!("no prepared prefix reported after iteration {}", i));
                }
            }
            (None, None) => {
                if !is_last {
                    return v.fail("exhausted_but_continued", format!("reference says exhausted after iteration {} but {} iterations ran", i, rec.ends.len()));
                }
            }
        }
        // replay of the prefix and depth-first order
        if k > 0 {
            let prev_next = rec.nexts.iter().find(|(j, _)| *j == *i).map(|(_, q)| q);
            if let Some(q) = prev_next {
                let dq = decisions(q);
                if d.len() < dq.len() || d[..dq.len()] != dq[..] {
                    return v.fail("prefix_not_replayed", format!("iteration {} does not start with the prepared prefix {:?}: {:?}", i, dq, d));
                }
            }
            let (ra, rb) = (ranks(&rec.ends[k - 1].1), ranks(end));
            // first difference must be an increase (depth-first order)
            let n = ra.len().min(rb.len());
            let mut ordered = false;
            for x in 0..n {
                if ra[x] != rb[x] {
                    ordered = rb[x] > ra[x];
                    break;
                }
            }
            if !ordered {
                return v.fail("not_depth_first", format!("iteration {} does not follow iteration {} in depth-first order: ranks {:?} then {:?}", i, i - 1, ra, rb));
            }
        }
    }
    if !capped && !panicked && seen.len() != iters {
        return v.fail("count_mismatch", format!("{} iterations but {} distinct paths", iters, seen.len()));
    }
    v
}
