//! Checks decided by the R-SC reference (exhaustive interleaving semantics):
//! C01 (every interleaving outcome explored), C05 (deadlocks exact), C07 (locks),
//! C08 (waiting primitives), C09 (channels), C10 (leaks), C11 (Arc), C17 (TLS / lazy).
//!
//! One shared evaluation compares a real loom run of the program with R-SC:
//!   * panic verdict: the run must panic iff R-SC says a failure state (deadlock, leak,
//!     data race, injected panic) is reachable, and with a message of a reachable kind;
//!   * `L ⊆ SC` for programs without atomics (every primitive is sequentially consistent
//!     by specification), `SC ⊆ L` always (when the run completed);
//!   * trace validation: the op log of every iteration must be accepted, step by step,
//!     by the reference object machines.
//! The per-property wrappers choose the generator and the non-triviality rule.

use crate::case::*;
use crate::dsl::*;
use crate::gen::{self, Src, SyncParams};
use crate::{interp, refsc};
use std::collections::{BTreeSet, HashSet};

pub fn panic_kind(msg: &str) -> &'static str {
    if msg.starts_with("deadlock") {
        "deadlock"
    } else if msg.contains("Causality violation") {
        "race"
    } else if msg.starts_with("Arc leaked") {
        "leak_arc"
    } else if msg.starts_with("Allocation leaked") {
        "leak_alloc"
    } else if msg.starts_with("Messages leaked") {
        "leak_msgs"
    } else if msg.starts_with("injected failure") || msg.starts_with("currently writing to cell") || msg.starts_with("currently reading from cell") {
        // (the last two: loom's report of a nested access, `Op::CellNested`)
        "injected"
    } else if msg.contains("Model exceeded maximum number of branches") {
        "branch_limit"
    } else {
        "other"
    }
}

pub struct ScEval {
    pub sc: refsc::ScResult,
    pub l: BTreeSet<Outcome>,
    pub panic: Option<String>,
    pub iters: usize,
    pub has_atomics: bool,
    pub has_na: bool,
    pub records: Vec<interp::IterRec>,
}

fn set_str(s: &BTreeSet<Outcome>) -> Vec<String> {
    s.iter().take(40).map(fmt_outcome).collect()
}

pub fn has_atomics(p: &Program) -> bool {
    p.n_atomics() > 0
}

pub fn has_na(p: &Program) -> bool {
    p.has(|o| {
        matches!(
            o,
            Op::CellRead { .. }
                | Op::CellWrite { .. }
                | Op::ArcCellRead { .. }
                | Op::ArcCellWrite { .. }
                | Op::AtomWithMut { .. }
                | Op::AtomUnsyncLoad { .. }
                | Op::LazyCellRead { .. }
                | Op::PanicInCellMut { .. }
                | Op::CellNested { .. }
                | Op::PanicInAtomMut { .. }
        )
    }) || p.n_arcs() > 0
}

/// The shared oracle. Returns the verdict (labels/nontrivial left to the caller) and the data.
pub fn evaluate(case: &Case, v: &mut Verdict) -> Result<ScEval, Verdict> {
    let sc = reference(case, v)?;
    let p = &case.prog;
    let run = interp::collect(p, &case.cfg, true);
    v.loom_iters = run.report.iters as u64;
    if run.report.capped {
        return Err(Verdict::skip("capped"));
    }
    let l: BTreeSet<Outcome> = run.outcomes.keys().cloned().collect();
    Ok(ScEval { sc, l, panic: run.report.panic.clone(), iters: run.report.iters, has_atomics: has_atomics(p), has_na: has_na(p), records: run.records })
}

/// Build the comparison data from a run that happened elsewhere (a child process).
pub fn from_parts(case: &Case, sc: refsc::ScResult, iters: usize, panic: Option<String>, records: Vec<interp::IterRec>) -> ScEval {
    let p = &case.prog;
    let l: BTreeSet<Outcome> = records.iter().filter(|r| !r.aborted).map(|r| r.results.clone()).collect();
    ScEval { sc, l, panic, iters, has_atomics: has_atomics(p), has_na: has_na(p), records }
}

/// The R-SC exploration of the case's program.
pub fn reference(case: &Case, v: &mut Verdict) -> Result<refsc::ScResult, Verdict> {
    let p = &case.prog;
    if let Err(e) = p.well_formed() {
        return Err(Verdict::skip(&format!("ill-formed: {}", e)));
    }
    let atom = has_atomics(p);
    let na = has_na(p);
    if atom && na && p.has(|o| matches!(o, Op::CellRead { .. } | Op::CellWrite { .. })) {
        return Err(Verdict::skip("atomics+cells: outside the R-SC race fragment"));
    }
    let mut o = refsc::Opts::new();
    o.notify_any = true;
    o.clocks = na;
    o.max_states = 300_000;
    let sc = refsc::explore(p, o);
    if sc.truncated {
        return Err(Verdict::skip("reference budget"));
    }
    if let Some(e) = &sc.ill_formed {
        return Err(Verdict::skip(&format!("ORACLE-BUG: {}", e)));
    }
    v.ref_states = sc.states as u64;
    Ok(sc)
}

/// Compare; on discrepancy returns Some((kind, message)).
pub fn compare(case: &Case, e: &ScEval, detail: &mut serde_json::Value) -> Option<(String, String)> {
    let p = &case.prog;
    let sc = &e.sc;
    // ---- which failures are reachable according to the reference
    let mut may: Vec<&'static str> = vec![];
    let mut must = false;
    if sc.deadlock {
        may.push("deadlock");
        must = true;
    }
    if sc.leaks.arc {
        may.push("leak_arc");
        must = true;
    }
    if sc.leaks.alloc {
        may.push("leak_alloc");
        must = true;
    }
    if sc.leaks.msgs {
        may.push("leak_msgs");
        must = true;
    }
    if sc.race_min {
        may.push("race");
    }
    if sc.race_max {
        must = true;
    }
    if sc.panic_reachable {
        may.push("injected");
        must = true;
    }
    // `yield_now` tells loom that the thread cannot make progress until another thread has run:
    // the reference treats it as a no-op, so with yields only the "may" direction is demanded
    // (lazy static 2 yields inside its initialiser)
    let has_yield = p.has(|o| matches!(o, Op::Yield | Op::LazyGet { k: 2 } | Op::LazyCellRead { k: 2 }));
    if has_yield {
        must = false;
    }
    // `notify_one` with two or more waiters queued: which waiter is woken is the implementation's
    // choice, so results (and deadlocks) that need a particular choice cannot be demanded
    let free_choice = sc.notify_one_choice;
    if free_choice {
        must = false;
    }
    *detail = serde_json::json!({
        "SC": set_str(&sc.outcomes), "L": set_str(&e.l),
        "reference": {"deadlock": sc.deadlock, "leaks": format!("{:?}", sc.leaks), "race_must": sc.race_max, "race_may": sc.race_min,
                      "panic_reachable": sc.panic_reachable, "states": sc.states},
        "loom": {"iterations": e.iters, "panic": e.panic},
    });
    match &e.panic {
        Some(msg) => {
            let k = panic_kind(msg);
            if !may.contains(&k) {
                let kind = match k {
                    "deadlock" => "false_deadlock",
                    "race" => "false_race",
                    "leak_arc" | "leak_alloc" | "leak_msgs" => "false_leak",
                    _ => "unexpected_panic",
                };
                return Some((
                    kind.to_string(),
                    format!("model run panicked with `{}` but the reference says no {} is reachable (reachable failures: {:?})", msg, k, may),
                ));
            }
        }
        None => {
            if must {
                let kind = if sc.deadlock {
                    "missed_deadlock"
                } else if sc.leaks.any() {
                    "missed_leak"
                } else if sc.race_max {
                    "missed_race"
                } else {
                    "missed_panic"
                };
                return Some((
                    kind.to_string(),
                    format!("model run completed ({} iterations) although the reference reaches a failure state ({:?})", e.iters, may),
                ));
            }
        }
    }
    // ---- outcome sets
    if !e.has_atomics {
        if let Some(x) = e.l.iter().find(|x| !sc.outcomes.contains(*x)) {
            return Some((
                "impossible_outcome".into(),
                format!("loom produced a result no interleaving of the reference produces: {}", fmt_outcome(x)),
            ));
        }
    }
    if e.panic.is_none() && !has_yield && !free_choice {
        let missing: Vec<&Outcome> = sc.outcomes.iter().filter(|x| !e.l.contains(*x)).collect();
        if let Some(m) = missing.first() {
            detail["missing"] = serde_json::json!(missing.iter().take(20).map(|o| fmt_outcome(o)).collect::<Vec<_>>());
            return Some((
                "missing_outcome".into(),
                format!(
                    "result produced by some interleaving is never explored: {} ({} of {} missing; loom ran {} iterations)",
                    fmt_outcome(m),
                    missing.len(),
                    sc.outcomes.len(),
                    e.iters
                ),
            ));
        }
    }
    // ---- Arc payloads: dropped at most once, exactly once in complete leak-free executions
    for r in &e.records {
        for (x, d) in r.arc_drops.iter().enumerate() {
            if d.0 > 1 {
                return Some(("payload_dropped_twice".into(), format!("the value inside arc{} was dropped {} times in one execution", x, d.0)));
            }
            if !r.aborted && !sc.leaks.arc && d.0 != 1 {
                return Some(("payload_not_dropped".into(), format!("a complete execution without leak dropped the value inside arc{} {} times", x, d.0)));
            }
        }
    }
    // ---- trace validation (values of atomic operations are taken from the record: loom's
    // atomics are weaker than the reference's sequentially consistent ones)
    if !p.has(|o| matches!(o, Op::Await { .. })) {
        let mut o = refsc::Opts::new();
        o.notify_any = true;
        // with atomics in the program the replay also carries the happens-before clocks: a load must
        // not return a value older than a store that happens-before it through the primitives
        o.clocks = e.has_atomics;
        o.max_states = 200_000;
        let m = refsc::Sc::new(p, o);
        let mut seen: HashSet<(Vec<(u8, u8)>, Outcome, bool)> = HashSet::new();
        for r in &e.records {
            if !seen.insert((r.log.clone(), r.results.clone(), r.aborted)) {
                continue;
            }
            let end = if r.aborted {
                match e.panic.as_deref().map(panic_kind) {
                    Some("deadlock") => refsc::End::Deadlock,
                    _ => refsc::End::Any,
                }
            } else {
                refsc::End::Complete
            };
            let verdict = m.replay(&r.log, &r.results, end, e.has_atomics);
            if verdict == refsc::Replay::Stale {
                let st = m.last_stale().unwrap();
                let trace: Vec<String> = r.log.iter().map(|(t, i)| format!("t{}:{}", t, p.threads[*t as usize][*i as usize])).collect();
                detail["stale_read"] = serde_json::json!({"log": trace, "results": fmt_outcome(&r.results), "at": st.pos});
                return Some((
                    "stale_read_despite_hb".into(),
                    format!(
                        "t{} read x{}={} at step {} of [{}] although the store of {} happens-before the load through the synchronisation the primitives must provide (lost happens-before edge)",
                        st.thread, st.loc, st.read, st.pos, trace.join(" ; "), st.newer
                    ),
                ));
            }
            if verdict == refsc::Replay::Rejected {
                let trace: Vec<String> = r.log.iter().map(|(t, i)| format!("t{}:{}", t, p.threads[*t as usize][*i as usize])).collect();
                detail["bad_trace"] = serde_json::json!({"log": trace, "results": fmt_outcome(&r.results), "aborted": r.aborted});
                return Some((
                    "invalid_trace".into(),
                    format!(
                        "an explored execution is not a valid execution of the reference object machines (end condition {:?}): {}  results {}",
                        end,
                        trace.join(" ; "),
                        fmt_outcome(&r.results)
                    ),
                ));
            }
        }
    }
    None
}

fn base_labels(p: &Program, e: &ScEval, v: &mut Verdict) {
    v.label(&format!("threads{}", p.n_threads()));
    if e.sc.deadlock {
        v.label("deadlock_reachable");
    }
    if e.sc.leaks.any() {
        v.label("leak_reachable");
    }
    if e.sc.race_max {
        v.label("race_must");
    }
    if e.has_na && !e.sc.race_min {
        v.label("na_race_free");
    }
    if e.sc.contended {
        v.label("blocking_observed");
    }
    if e.sc.outcomes.len() >= 2 {
        v.label("multi_outcome");
    }
    if e.sc.send_after_rx_drop {
        v.label("class:send_after_rx_drop");
    }
    if e.sc.notify_one_choice {
        v.label("notify_one_choice");
    }
    if e.sc.try_can_fail {
        v.label("try_can_fail");
    }
    let kinds: [(&str, fn(&Op) -> bool); 12] = [
        ("mutex", |o| matches!(o, Op::Lock { .. } | Op::TryLock { .. })),
        ("try_lock", |o| matches!(o, Op::TryLock { .. } | Op::TryRead { .. } | Op::TryWrite { .. })),
        ("rwlock", |o| matches!(o, Op::Read { .. } | Op::Write { .. } | Op::TryRead { .. } | Op::TryWrite { .. })),
        ("condvar", |o| matches!(o, Op::CvWait { .. } | Op::CvWaitWhileZero { .. })),
        ("notify", |o| matches!(o, Op::NfWait { .. })),
        ("park", |o| matches!(o, Op::Park)),
        ("unpark", |o| matches!(o, Op::Unpark { .. })),
        ("channel", |o| matches!(o, Op::Send { .. })),
        ("try_recv", |o| matches!(o, Op::TryRecv)),
        ("join", |o| matches!(o, Op::Join { .. })),
        ("atomics", |o| matches!(o, Op::Load { .. } | Op::Store { .. } | Op::Swap { .. } | Op::FetchAdd { .. } | Op::Cas { .. })),
        ("cells", |o| matches!(o, Op::CellRead { .. } | Op::CellWrite { .. })),
    ];
    for (name, f) in kinds {
        if p.has(f) {
            v.label(name);
        }
    }
}

// ---------------------------------------------------------------------------------
// generators per property
// ---------------------------------------------------------------------------------

fn sp() -> SyncParams {
    SyncParams { max_threads: 2, max_ops: 6, ..Default::default() }
}

pub fn build(prop: &str, draws: &[u16], tier: Tier) -> Case {
    let mut s = Src::new(draws);
    if prop == "C01" && s.chance(1, 16) {
        // the reduction together with the exploration controls: decisions outside a frozen region
        // are still fully explored (C19's region programs and reference)
        let mut c = crate::props::c19::build_mode(&draws[1..], tier, Some(8));
        c.prop = "C01".into();
        c.family = "frozen-region".into();
        return c;
    }
    let extra = if tier == Tier::Thorough { 1 } else { 0 };
    let (family, prog): (&str, Program) = match prop {
        "C01" => match s.pick(11) {
            10 => ("convoy", gen::convoy(&mut s)),
            0 | 1 => ("atomics-sc", {
                let lp = gen::LitmusParams {
                    sc_only: true,
                    fences: false,
                    rmw: true,
                    free_mix: false,
                    max_threads: 3,
                    max_events: 5 + extra,
                    joins: false,
                    late_spawn: true,
                };
                gen::litmus(&mut s, &lp)
            }),
            2 => ("mutex", gen::sync_prog(&mut s, &SyncParams { mutex: true, ordered_locks: true, max_threads: 3, max_ops: 6 + extra, late_spawn: true, ..sp() })),
            3 => ("rwlock", gen::sync_prog(&mut s, &SyncParams { rwlock: true, max_threads: 3, max_ops: 6 + extra, ..sp() })),
            4 => ("condvar", gen::sync_prog(&mut s, &SyncParams { condvar: true, max_threads: 3, max_ops: 7 + extra, ..sp() })),
            5 => ("channel", gen::sync_prog(&mut s, &SyncParams { channel: true, max_threads: 3, max_ops: 6 + extra, joins: true, ..sp() })),
            6 => ("park-notify-join", gen::sync_prog(&mut s, &SyncParams { park: true, notify: true, unpark_any: true, max_threads: 3, max_ops: 6 + extra, joins: true, child_joins: true, ..sp() })),
            7 => ("mixed", gen::sync_prog(&mut s, &SyncParams { mutex: true, channel: true, atomics: true, conditionals: true, ordered_locks: true, max_threads: 3, max_ops: 7 + extra, ..sp() })),
            8 => ("mixed2", gen::sync_prog(&mut s, &SyncParams { rwlock: true, condvar: true, atomics: true, max_threads: 2, max_ops: 7 + extra, ..sp() })),
            _ => ("try-ops", gen::sync_prog(&mut s, &SyncParams { mutex: true, try_lock: true, rwlock: true, try_rw: true, channel: true, try_recv: true, max_threads: 2, max_ops: 6 + extra, ..sp() })),
        },
        "C05" => match s.pick(13) {
            12 => ("wake-crossover", gen::wake_crossover(&mut s)),
            11 => ("mixed-wakeups", gen::sync_prog(&mut s, &SyncParams { channel: true, try_recv: true, condvar: true, park: true, notify: true, max_threads: 2, max_ops: 7 + extra, joins: true, ..sp() })),
            7 => ("yield", gen::sync_prog(&mut s, &SyncParams { park: true, mutex: true, channel: true, yields: true, ordered_locks: true, max_threads: 2, max_ops: 6 + extra, joins: true, joins_inside: true, ..sp() })),
            8 => ("yield-locks", gen::sync_prog(&mut s, &SyncParams { mutex: true, rwlock: true, yields: true, conditionals: true, ordered_locks: true, max_threads: 2, max_ops: 8 + extra, joins: true, joins_inside: true, ..sp() })),
            10 => ("cond-shapes", gen::cond_shape(&mut s)),
            9 => ("join-inside", gen::sync_prog(&mut s, &SyncParams { mutex: true, rwlock: true, condvar: true, conditionals: true, ordered_locks: true, max_threads: 3, max_ops: 7 + extra, joins: true, joins_inside: true, ..sp() })),
            6 => ("unpark-any", gen::sync_prog(&mut s, &SyncParams { park: true, mutex: true, unpark_any: true, ordered_locks: true, max_threads: 3, max_ops: 6 + extra, joins: true, ..sp() })),
            0 => ("lock-order", gen::sync_prog(&mut s, &SyncParams { mutex: true, ordered_locks: false, max_threads: 3, max_ops: 7 + extra, ..sp() })),
            1 => ("lock-order-ok", gen::sync_prog(&mut s, &SyncParams { mutex: true, rwlock: true, ordered_locks: true, max_threads: 3, max_ops: 7 + extra, ..sp() })),
            2 => ("condvar", gen::sync_prog(&mut s, &SyncParams { condvar: true, max_threads: 3, max_ops: 7 + extra, ..sp() })),
            3 => ("channel", gen::sync_prog(&mut s, &SyncParams { channel: true, max_threads: 3, max_ops: 6 + extra, joins: true, child_joins: true, ..sp() })),
            4 => ("park", gen::sync_prog(&mut s, &SyncParams { park: true, notify: true, unpark_any: true, max_threads: 3, max_ops: 6 + extra, joins: true, child_joins: true, ..sp() })),
            _ => ("mixed", gen::sync_prog(&mut s, &SyncParams { mutex: true, rwlock: true, channel: true, park: true, unpark_any: true, max_threads: 3, max_ops: 7 + extra, joins: true, ..sp() })),
        },
        "C07" => match s.pick(10) {
            8 => ("yield-after-lock-op", gen::yield_after_lock_op(&mut s)),
            9 => ("convoy", gen::convoy(&mut s)),
            0 => ("mutex", gen::sync_prog(&mut s, &SyncParams { mutex: true, ordered_locks: true, cells: true, max_threads: 3, max_ops: 7 + extra, late_spawn: true, ..sp() })),
            1 => ("rwlock", gen::sync_prog(&mut s, &SyncParams { rwlock: true, cells: true, max_threads: 3, max_ops: 7 + extra, ..sp() })),
            2 => ("mutex+rwlock", gen::sync_prog(&mut s, &SyncParams { mutex: true, rwlock: true, ordered_locks: true, final_exclusive: true, max_threads: 3, max_ops: 7 + extra, joins: true, ..sp() })),
            3 => ("try", gen::sync_prog(&mut s, &SyncParams { mutex: true, try_lock: true, rwlock: true, try_rw: true, ordered_locks: true, max_threads: 2, max_ops: 6 + extra, ..sp() })),
            5 => ("try+atomics", gen::sync_prog(&mut s, &SyncParams { mutex: true, try_lock: true, rwlock: true, try_rw: true, atomics: true, ordered_locks: true, max_threads: 2, max_ops: 7 + extra, ..sp() })),
            6 => ("locks+probes", gen::sync_prog(&mut s, &SyncParams { mutex: true, rwlock: true, probes: true, ordered_locks: true, max_threads: 3, max_ops: 8 + extra, joins: true, ..sp() })),
            _ => ("handover", gen::lock_handover(&mut s)),
        },
        "C08" => match s.pick(15) {
            14 => ("double-signal", gen::double_signal(&mut s)),
            13 => ("wake-crossover", gen::wake_crossover(&mut s)),
            11 => ("multi-wait", gen::multi_wait(&mut s)),
            12 => ("mixed-wakeups", gen::sync_prog(&mut s, &SyncParams { channel: true, try_recv: true, condvar: true, park: true, notify: true, max_threads: 2, max_ops: 7 + extra, joins: true, ..sp() })),
            7 => ("yield", gen::sync_prog(&mut s, &SyncParams { park: true, condvar: true, notify: true, yields: true, max_threads: 2, max_ops: 6 + extra, joins: true, ..sp() })),
            6 => ("unpark-any", gen::sync_prog(&mut s, &SyncParams { park: true, condvar: true, unpark_any: true, max_threads: 3, max_ops: 6 + extra, joins: true, ..sp() })),
            0 => ("condvar", gen::sync_prog(&mut s, &SyncParams { condvar: true, cells: true, max_threads: 3, max_ops: 7 + extra, ..sp() })),
            1 => ("condvar+cond", gen::sync_prog(&mut s, &SyncParams { condvar: true, conditionals: true, max_threads: 3, max_ops: 8 + extra, joins: true, ..sp() })),
            2 => ("notify", gen::sync_prog(&mut s, &SyncParams { notify: true, cells: true, max_threads: 2, max_ops: 6 + extra, joins: true, ..sp() })),
            3 => ("park", gen::sync_prog(&mut s, &SyncParams { park: true, cells: true, unpark_any: true, max_threads: 3, max_ops: 6 + extra, joins: true, ..sp() })),
            4 => ("join", gen::sync_prog(&mut s, &SyncParams { cells: true, max_threads: 3, max_ops: 5 + extra, joins: true, child_joins: true, late_spawn: true, ..sp() })),
            8 => ("waits+probes", gen::sync_prog(&mut s, &SyncParams { condvar: true, notify: true, park: true, unpark_any: true, probes: true, max_threads: 2, max_ops: 8 + extra, joins: true, ..sp() })),
            9 => ("notify+probes", gen::sync_prog(&mut s, &SyncParams { notify: true, probes: true, max_threads: 3, max_ops: 8 + extra, joins: true, ..sp() })),
            _ => ("wait-shapes", gen::wait_shape(&mut s)),
        },
        "C09" => match s.pick(5) {
            0 => ("channel", gen::sync_prog(&mut s, &SyncParams { channel: true, max_threads: 3, max_ops: 7 + extra, joins: true, ..sp() })),
            1 => ("channel+cond", gen::sync_prog(&mut s, &SyncParams { channel: true, conditionals: true, max_threads: 3, max_ops: 8 + extra, joins: true, ..sp() })),
            2 => ("channel+cells", gen::chan_handover(&mut s)),
            4 => ("channel+probes", gen::sync_prog(&mut s, &SyncParams { channel: true, probes: true, max_threads: 3, max_ops: 8 + extra, joins: true, ..sp() })),
            _ => ("try_recv", gen::sync_prog(&mut s, &SyncParams { channel: true, try_recv: true, max_threads: 2, max_ops: 6 + extra, joins: true, ..sp() })),
        },
        "C10" => match s.pick(6) {
            // thread-locals and lazy statics of the harness own a loom Arc (key 1): their destruction is part of "releases everything"
            5 => ("tls-lazy", gen::tls_lazy_prog(&mut s, 3, 7, true)),
            0 | 1 => ("arc-leaks", gen::arc_prog(&mut s, &gen::ArcParams { inspect: true, leaks: true, tracked: false, cells: false, max_threads: 2, max_ops: 6 + extra })),
            2 | 3 => ("tracked", gen::arc_prog(&mut s, &gen::ArcParams { inspect: false, leaks: true, tracked: true, cells: false, max_threads: 2, max_ops: 6 + extra })),
            _ => ("messages", gen::sync_prog(&mut s, &SyncParams { channel: true, max_threads: 3, max_ops: 6 + extra, joins: true, ..sp() })),
        },
        "C11" => match s.pick(4) {
            0 | 1 => ("arc-inspect", gen::arc_prog(&mut s, &gen::ArcParams { inspect: true, leaks: false, tracked: false, cells: false, max_threads: 3, max_ops: 6 + extra })),
            2 => ("arc-cells", gen::arc_prog(&mut s, &gen::ArcParams { inspect: true, leaks: false, tracked: false, cells: true, max_threads: 2, max_ops: 7 + extra })),
            _ => ("arc-plain", gen::arc_prog(&mut s, &gen::ArcParams { inspect: false, leaks: false, tracked: false, cells: true, max_threads: 3, max_ops: 7 + extra })),
        },
        _ => panic!("sc::build: {}", prop),
    };
    let mut c = Case::new(prop, family, prog);
    c.cfg.max_permutations = Some(tier.iter_cap());
    c.cfg.max_branches = 5000;
    c
}

pub fn eval(case: &Case) -> Verdict {
    if case.family == "frozen-region" {
        let mut c = case.clone();
        c.prop = "C19".into();
        let mut v = crate::props::c19::eval(&c);
        v.labels.retain(|l| !l.starts_with("mode_"));
        v.label("frozen_region");
        return v;
    }
    let mut v = Verdict::pass();
    let e = match evaluate(case, &mut v) {
        Ok(e) => e,
        Err(skip) => return skip,
    };
    let p = &case.prog;
    base_labels(p, &e, &mut v);
    // non-triviality per property
    let racing = e.sc.outcomes.len() + e.sc.deadlock_outcomes.len() + e.sc.leak_outcomes.len() >= 2;
    v.nontrivial = match case.prop.as_str() {
        "C01" => p.n_threads() >= 2 && racing,
        "C05" => e.sc.max_blocked >= 2 || (e.sc.deadlock && e.sc.max_blocked >= 1 && p.n_threads() >= 2),
        "C07" => e.sc.contended && p.has(|o| matches!(o, Op::Lock { .. } | Op::TryLock { .. } | Op::Read { .. } | Op::Write { .. } | Op::TryRead { .. } | Op::TryWrite { .. })),
        "C08" => p.has(|o| matches!(o, Op::CvWait { .. } | Op::CvWaitWhileZero { .. } | Op::NfWait { .. } | Op::Park | Op::Join { .. })) && (racing || e.sc.contended),
        "C09" => p.has(|o| matches!(o, Op::Recv | Op::TryRecv)) && p.ops().any(|(t, _, o)| matches!(o, Op::Send { .. }) && t != p.rx_owner as usize),
        "C10" => {
            // an object crosses a thread boundary: an arc handle owned by a child, or a tracked slot used by two threads
            let arc_cross = p.ops().any(|(t, _, o)| matches!(o, Op::ArcClone { to, .. } if *to as usize != t));
            let slot_users = |f: fn(&Op) -> Option<u8>| (0..2u8).any(|k| p.ops().filter(|(_, _, o)| f(o) == Some(k)).map(|(t, _, _)| t).collect::<BTreeSet<_>>().len() >= 2);
            arc_cross
                || slot_users(|o| match o {
                    Op::TrackNew { k } | Op::TrackDrop { k } | Op::TrackForget { k } => Some(*k),
                    _ => None,
                })
                || slot_users(|o| match o {
                    Op::Alloc { k } | Op::Dealloc { k } => Some(*k),
                    _ => None,
                })
                || p.uses_channel()
        }
        "C11" => crate::known::arc_inspect_race(p) || p.ops().any(|(t, _, o)| matches!(o, Op::ArcClone { to, .. } if *to as usize != t)),
        _ => racing,
    };
    let mut detail = serde_json::Value::Null;
    let r = compare(case, &e, &mut detail);
    v.detail = detail;
    match r {
        Some((kind, msg)) => v.fail(&kind, msg),
        None => v,
    }
}
