//! C15: a preemption bound restricts exploration soundly and monotonically.
//!
//! For a generated program P and bound n the harness runs P unbounded, with bound n, n+1 and
//! "large" (the number of operations of P). Oracle:
//!  1. every iteration of the bounded runs, replayed on the R-SC machines, contains at most n
//!     switches away from a thread whose next operation could have completed (independent
//!     count; the minimum over all replays consistent with the log, so never an over-count);
//!     cross-check: loom's own per-branch preemption counters reported by the hook are <= n;
//!  2. L_n ⊆ L_∞;  3. L_n ⊆ L_{n+1};  4. L_big == L_∞.
//! Completeness within a bound is not claimed by the property and not demanded.

use crate::case::*;
use crate::dsl::*;
use crate::gen::{self, Src, SyncParams};
use crate::{interp, refsc};
use loom::verif::{Branch, Phase, ThreadStatus};
use std::collections::{BTreeSet, HashSet};
use std::sync::{Arc, Mutex};

pub fn build(draws: &[u16], tier: Tier) -> Case {
    let mut s = Src::new(draws);
    let extra = if tier == Tier::Thorough { 1 } else { 0 };
    let sp = SyncParams { max_threads: 2, max_ops: 6, ..Default::default() };
    let (family, prog) = match s.pick(6) {
        0 | 1 => ("atomics-sc", {
            let lp = gen::LitmusParams { sc_only: true, fences: false, rmw: true, free_mix: false, max_threads: 3, max_events: 5 + extra, joins: false, late_spawn: true };
            gen::litmus(&mut s, &lp)
        }),
        2 => ("mutex", gen::sync_prog(&mut s, &SyncParams { mutex: true, rwlock: true, ordered_locks: true, max_threads: 3, max_ops: 6 + extra, ..sp.clone() })),
        3 => ("channel", gen::sync_prog(&mut s, &SyncParams { channel: true, max_threads: 3, max_ops: 6 + extra, joins: true, ..sp.clone() })),
        4 => ("mixed", gen::sync_prog(&mut s, &SyncParams { mutex: true, channel: true, atomics: true, ordered_locks: true, max_threads: 3, max_ops: 6 + extra, ..sp.clone() })),
        _ => ("condvar-yield", gen::sync_prog(&mut s, &SyncParams { condvar: true, atomics: true, yields: true, max_threads: 2, max_ops: 6 + extra, joins: true, ..sp.clone() })),
    };
    let mut prog = prog;
    let mut explicit = false;
    if s.chance(1, 6) {
        // the bound together with the exploration controls: a prefix of main runs with exploration
        // switched off (so the first scheduling decisions are recorded as non-exploring)
        // (in main or in a spawned thread; at the start or in the middle of the thread)
        let t = if s.chance(1, 3) && prog.threads.len() > 1 { 1 + s.pick(prog.threads.len() - 1) } else { 0 };
        let len = prog.threads[t].len();
        let k = (1 + s.pick(len.max(1))).min(len);
        prog.threads[t].insert(k, Op::Explore);
        if t != 0 || s.chance(2, 3) {
            let from = if s.chance(1, 2) { 0 } else { s.pick(k) };
            prog.threads[t].insert(from, Op::StopExploring);
        } else {
            explicit = true;
        }
    }
    let mut c = Case::new("C15", family, prog);
    c.cfg.expect_explicit_explore = explicit;
    c.cfg.max_permutations = Some(tier.iter_cap());
    c.cfg.max_branches = 5000;
    c.x.n = Some(s.pick(6) as i64);
    c
}

struct Run {
    l: BTreeSet<Outcome>,
    records: Vec<interp::IterRec>,
    panic: Option<String>,
    capped: bool,
    iters: usize,
    hook_max: u32,
}

fn run(p: &Program, cfg: &Config, bound: Option<usize>) -> Run {
    let mut cfg = cfg.clone();
    cfg.preemption_bound = bound;
    let hm: Arc<Mutex<u32>> = Arc::new(Mutex::new(0));
    let h2 = hm.clone();
    let hook = Box::new(move |ph: Phase, _i: usize, path: &[Branch]| {
        if ph != Phase::IterationEnd {
            return;
        }
        let mut m = h2.lock().unwrap();
        for b in path {
            if let Branch::Schedule { threads, preemptions, initial_active, .. } = b {
                let active = threads.iter().position(|t| *t == ThreadStatus::Active).map(|i| i as u8);
                let c = *preemptions as u32 + if initial_active.is_some() && active.is_some() && *initial_active != active { 1 } else { 0 };
                if c > *m {
                    *m = c;
                }
            }
        }
    });
    let r = interp::collect_with(p, &cfg, interp::RunOpts { hook: Some(hook), ..Default::default() }, true);
    let hook_max = *hm.lock().unwrap();
    Run { l: r.outcomes.keys().cloned().collect(), records: r.records, panic: r.report.panic.clone(), capped: r.report.capped, iters: r.report.iters, hook_max }
}

fn set_str(s: &BTreeSet<Outcome>) -> Vec<String> {
    s.iter().take(30).map(fmt_outcome).collect()
}

pub fn eval(case: &Case) -> Verdict {
    let p = &case.prog;
    let mut v = Verdict::pass();
    if let Err(e) = p.well_formed() {
        return Verdict::skip(&format!("ill-formed: {}", e));
    }
    let n = case.x.n.unwrap_or(0).max(0) as usize;
    let big = p.n_ops().max(n + 1);
    let inf = run(p, &case.cfg, None);
    if inf.capped {
        return Verdict::skip("capped");
    }
    let rn = run(p, &case.cfg, Some(n));
    let rn1 = run(p, &case.cfg, Some(n + 1));
    let rbig = run(p, &case.cfg, Some(big));
    if rn.capped || rn1.capped || rbig.capped {
        return Verdict::skip("capped");
    }
    v.loom_iters = (inf.iters + rn.iters + rn1.iters + rbig.iters) as u64;
    {
        // classes of recorded exploration-completeness findings (the unbounded run is the yardstick here)
        let mut o = refsc::Opts::new();
        o.notify_any = true;
        o.max_states = 100_000;
        let sc = refsc::explore(p, o);
        if sc.send_after_rx_drop {
            v.label("class:send_after_rx_drop");
        }
    }
    v.label(&format!("bound{}", n));
    if p.has(|o| matches!(o, Op::Explore)) {
        v.label("with_exploration_controls");
    }
    v.label(&format!("threads{}", p.n_threads()));
    let r0 = if n == 0 { None } else { Some(run(p, &case.cfg, Some(0))) };
    let l0 = r0.as_ref().map(|r| &r.l).unwrap_or(&rn.l);
    v.nontrivial = *l0 != inf.l && !inf.l.is_empty();
    if rn.l != inf.l {
        v.label("bound_restricts_results");
    }
    if inf.panic.is_some() {
        v.label("unbounded_run_panics");
    }
    v.detail = serde_json::json!({
        "n": n, "big": big,
        "L_inf": set_str(&inf.l), "L_n": set_str(&rn.l), "L_n1": set_str(&rn1.l), "L_big": set_str(&rbig.l),
        "iterations": {"inf": inf.iters, "n": rn.iters, "n1": rn1.iters, "big": rbig.iters},
        "panics": {"inf": inf.panic, "n": rn.panic, "n1": rn1.panic, "big": rbig.panic},
    });
    // a panic (deadlock, ...) found under a bound must also be found by the unbounded run
    if rn.panic.is_some() && inf.panic.is_none() {
        return v.fail("bounded_only_failure", format!("with preemption_bound={} the run fails with `{}` but the unbounded run completes", n, rn.panic.clone().unwrap()));
    }
    // 1. independent preemption count
    let has_await = p.has(|o| matches!(o, Op::Await { .. }));
    let has_try = p.has(|o| matches!(o, Op::TryLock { .. } | Op::TryRead { .. } | Op::TryWrite { .. } | Op::TryRecv));
    if !has_await && !has_try {
        let mut o = refsc::Opts::new();
        o.notify_any = true;
        o.max_states = 100_000;
        let m = refsc::Sc::new(p, o);
        let free = p.n_atomics() > 0;
        for (bound, r) in [(n, &rn), (n + 1, &rn1)] {
            let mut seen: HashSet<Vec<(u8, u8)>> = HashSet::new();
            for rec in &r.records {
                if !seen.insert(rec.log.clone()) {
                    continue;
                }
                let end = if rec.aborted { refsc::End::Any } else { refsc::End::Complete };
                match m.replay(&rec.log, &rec.results, end, free) {
                    refsc::Replay::Accepted(c) => {
                        if c as usize > bound {
                            let trace: Vec<String> = rec.log.iter().map(|(t, i)| format!("t{}:{}", t, p.threads[*t as usize][*i as usize])).collect();
                            return v.fail(
                                "too_many_preemptions",
                                format!("with preemption_bound={} an explored execution contains {} switches away from a thread that could have continued: {}", bound, c, trace.join(" ; ")),
                            );
                        }
                    }
                    refsc::Replay::Rejected => {
                        v.label("trace_not_replayable");
                    }
                    refsc::Replay::Inconclusive | refsc::Replay::Stale => {}
                }
            }
            if r.hook_max as usize > bound {
                return v.fail("too_many_preemptions_hook", format!("with preemption_bound={} loom's own branch records show {} preemptions", bound, r.hook_max));
            }
        }
    }
    // 1b. the bound also holds for the part of the exploration that a fresh process resumes from a
    // checkpoint file (a fifth of the cases)
    if !has_await && !has_try && n >= 1 && rn.iters >= 4 && (p.n_ops() + n) % 5 == 0 {
        use crate::script::{self, RunSpec, Script, Step};
        let file = script::scratch_file("c15ckpt");
        let _ = std::fs::remove_file(&file);
        let mut cfg = case.cfg.clone();
        cfg.preemption_bound = Some(n);
        cfg.checkpoint_interval = 1;
        let mut c1 = cfg.clone();
        c1.max_permutations = Some(rn.iters / 2);
        let f = file.to_string_lossy().to_string();
        let first = script::run_fresh(&Script { steps: vec![Step { runs: vec![RunSpec { prog: p.clone(), cfg: c1, checkpoint_file: Some(f.clone()), keep: Some(0), ..Default::default() }], parallel: false }] });
        let second = script::run_fresh(&Script { steps: vec![Step { runs: vec![RunSpec { prog: p.clone(), cfg: cfg.clone(), checkpoint_file: Some(f.clone()), ..Default::default() }], parallel: false }] });
        let _ = std::fs::remove_file(&file);
        if let (Ok(_), Ok(mut r2)) = (first, second) {
            v.label("resumed_from_checkpoint");
            let r2 = r2.remove(0).remove(0);
            let mut o = refsc::Opts::new();
            o.notify_any = true;
            o.max_states = 100_000;
            let m = refsc::Sc::new(p, o);
            let free = p.n_atomics() > 0;
            for rec in &r2.records {
                let end = if rec.aborted { refsc::End::Any } else { refsc::End::Complete };
                if let refsc::Replay::Accepted(c) = m.replay(&rec.log, &rec.results, end, free) {
                    if c as usize > n {
                        let trace: Vec<String> = rec.log.iter().map(|(t, i)| format!("t{}:{}", t, p.threads[*t as usize][*i as usize])).collect();
                        return v.fail(
                            "too_many_preemptions_after_resume",
                            format!("with preemption_bound={} an execution explored after resuming from a checkpoint contains {} switches away from a thread that could have continued: {}", n, c, trace.join(" ; ")),
                        );
                    }
                }
            }
        }
    }
    // 2. L_n ⊆ L_inf (only when the unbounded run explored everything, i.e. did not stop at a failure)
    if inf.panic.is_none() {
        if let Some(x) = rn.l.iter().find(|x| !inf.l.contains(*x)) {
            return v.fail("bounded_result_not_in_unbounded", format!("result {} found with preemption_bound={} is never found by the unbounded run", fmt_outcome(x), n));
        }
        if let Some(x) = rbig.l.iter().find(|x| !inf.l.contains(*x)) {
            return v.fail("bounded_result_not_in_unbounded", format!("result {} found with preemption_bound={} is never found by the unbounded run", fmt_outcome(x), big));
        }
        // 4. a bound at least as large as the number of operations restricts nothing
        if rbig.panic.is_none() {
            if let Some(x) = inf.l.iter().find(|x| !rbig.l.contains(*x)) {
                return v.fail("large_bound_restricts", format!("result {} of the unbounded run is missing with preemption_bound={} (>= number of operations)", fmt_outcome(x), big));
            }
        }
    }
    // 3. monotonic in n
    if rn1.panic.is_none() {
        if let Some(x) = rn.l.iter().find(|x| !rn1.l.contains(*x)) {
            return v.fail("not_monotonic", format!("result {} is found with preemption_bound={} but not with {}", fmt_outcome(x), n, n + 1));
        }
    }
    v
}
