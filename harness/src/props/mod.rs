//! Property registry: generator, oracle, budget and non-triviality rule per property.

pub mod ax;
pub mod c12;
pub mod c20;

use crate::case::*;

pub struct Info {
    pub id: &'static str,
    pub rule: &'static str,
    /// number of u16 draws a case is built from
    pub draws: usize,
    pub cases_quick: usize,
    pub cases_thorough: usize,
    pub assumptions: &'static [&'static str],
}

pub const ALL: [&str; 3] = ["C02", "C03", "C12"];

pub fn info(id: &str) -> Info {
    match id {
        "C02" => Info {
            id: "C02",
            rule: "litmus programs (2-4 threads, 1-3 locations, loads/stores/RMWs/CAS/fences of every ordering, joins + final loads) generated from classical skeletons (SB, MP, CoRR, 2+2W, WRC, RWC, CoWR, S, 3-thread chains, release sequences through RMWs, RMW chains, CAS races) with random orderings/fences and free-form; oracle: every outcome of the brute-force RC11 enumeration (strongest reading A) must be produced by some loom iteration. Non-trivial = A(P) contains an outcome that no sequentially consistent interleaving produces (a genuinely weak behaviour is required); distinct = distinct canonical program",
            draws: 64,
            cases_quick: 2400,
            cases_thorough: 40000,
            assumptions: &["R-AX (harness/src/refax.rs) implements RC11 faithfully; cross-checked against the litmus catalogue and against R-SC on SeqCst-only programs", "programs are bounded: <= 4 threads, <= 7 memory events besides the final loads, <= 5 writes per location"],
        },
        "C03" => Info {
            id: "C03",
            rule: "same generators as C02 plus the quarantined stream; oracle: every outcome loom produces must be in U(P), the brute-force RC11 enumeration with SeqCst accesses weakened to acquire/release and C++20 release sequences (weakest reading). Non-trivial = U(P) is strictly smaller than the product of 'every read returns any value written to its location'; distinct = distinct canonical program",
            draws: 64,
            cases_quick: 2400,
            cases_thorough: 40000,
            assumptions: &["R-AX weakest reading never forbids a behaviour C11, C++20 or RC11 allows"],
        },
        "C12" => Info {
            id: "C12",
            rule: "single-threaded operation sequences (1-24 ops quick, 1-40 thorough) on every loom atomic type with boundary-biased operands and every valid ordering, run on the loom atomic (inside loom::model) and on the std atomic of the same type; every returned value, Ok/Err shape and the final content must be equal. Plus an exhaustive sub-domain: u8/i8 x 9 binary operations x all 256x256 (current, operand) pairs. Non-trivial = the sequence contains an RMW whose mathematical result leaves the type's range, a CAS on a value with the sign bit set, a min/max across the sign boundary, or >= 7 stores followed by unsync_load/with_mut; distinct = distinct (type, init, sequence)",
            draws: 260,
            cases_quick: 40000,
            cases_thorough: 1000000,
            assumptions: &["std atomics are the reference", "compare_exchange_weak is compared against the strong std operation (loom documents a strong weak-CAS)"],
        },
        _ => panic!("unknown property {}", id),
    }
}

pub fn build(id: &str, draws: &[u16], tier: Tier) -> Case {
    match id {
        "C02" | "C03" => ax::build(id, draws, tier),
        "C12" => c12::build(draws, tier),
        _ => panic!("unknown property {}", id),
    }
}

/// Deterministic cases run before the generated ones (catalogues, exhaustive sub-domains).
pub fn fixed(id: &str, _tier: Tier) -> Vec<Case> {
    match id {
        "C12" => c12::exhaustive8_cases(),
        _ => vec![],
    }
}

pub fn eval(case: &Case, _tier: Tier) -> Verdict {
    match case.prop.as_str() {
        "C02" => ax::eval(case, true),
        "C03" => ax::eval(case, false),
        "C12" => c12::eval(case),
        other => Verdict::skip(&format!("unknown property {}", other)),
    }
}
