//! C20: block_on / AtomicWaker (filled in later).
use serde::{Deserialize, Serialize};

#[derive(Clone, Debug, PartialEq, Eq, Hash, Serialize, Deserialize, Default)]
pub struct FutCase {
    pub placeholder: u8,
}

impl FutCase {
    pub fn describe(&self) -> String {
        format!("{:?}", self)
    }
}
