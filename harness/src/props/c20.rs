//! C20: `future::block_on` and `AtomicWaker` never lose a wake-up.
//!
//! Generated programs: main runs one or two `block_on` calls in sequence. Each task's future
//! polls a counter; 1-2 waking threads per task bump the counter and wake in a generated order
//! (wake before the bump = planted lost wake-up, no wake at all = planted deadlock). Wakers are
//! either handed a clone of `cx.waker()` at the first poll, or all tasks register in one shared
//! `AtomicWaker` (register-then-check, check-then-register = planted lost wake-up, or
//! check-register-check) and the waking threads call `AtomicWaker::wake`.
//!
//! Reference R-FUT: explicit-state interleaving model (counter, one `Notify` per task with a
//! stored flag and a single spurious return, one waker slot for the AtomicWaker). Oracle:
//! the set of (polls per task) outcomes of loom equals the reference's, and loom reports a
//! deadlock iff the reference reaches one.

use crate::case::*;
use crate::gen::Src;
use crate::interp::panic_msg;
use crate::props::sc::panic_kind;
use serde::{Deserialize, Serialize};
use std::collections::{BTreeSet, HashSet};

#[derive(Clone, Copy, Debug, PartialEq, Eq, Hash, Serialize, Deserialize)]
pub enum WOp {
    Bump,
    Wake,
    WakeByRef,
}

#[derive(Clone, Debug, PartialEq, Eq, Hash, Serialize, Deserialize, Default)]
pub struct Task {
    /// 0 register-then-check, 1 check-then-register (lossy), 2 check-register-check (AtomicWaker mode only)
    pub order: u8,
    pub wakers: Vec<Vec<WOp>>,
    /// the future is ready when the counter reached this value
    pub need: u8,
    /// waking threads are spawned inside the first poll (always so without AtomicWaker)
    pub spawn_in_poll: bool,
}

#[derive(Clone, Debug, PartialEq, Eq, Hash, Serialize, Deserialize, Default)]
pub struct FutCase {
    /// the counter is accessed with Relaxed instead of SeqCst: the wake-up itself must order the bump before the re-poll
    #[serde(default)]
    pub relaxed: bool,
    pub atomic_waker: bool,
    pub tasks: Vec<Task>,
}

impl FutCase {
    pub fn describe(&self) -> String {
        let t: Vec<String> = self
            .tasks
            .iter()
            .map(|t| {
                let w: Vec<String> = t.wakers.iter().map(|ops| format!("{:?}", ops)).collect();
                format!("task(order={}, need={}, spawn_in_poll={}, wakers={})", t.order, t.need, t.spawn_in_poll, w.join(" | "))
            })
            .collect();
        format!("futures[{}{}] {}", if self.atomic_waker { "AtomicWaker" } else { "cx.waker clones" }, if self.relaxed { ", relaxed counter" } else { "" }, t.join(" ; "))
    }
}

pub fn build(draws: &[u16], _tier: Tier) -> Case {
    let mut s = Src::new(draws);
    let atomic_waker = s.chance(1, 2);
    let ntasks = if s.chance(1, 3) { 2 } else { 1 };
    let mut tasks = vec![];
    for _ in 0..ntasks {
        let nw = if ntasks == 2 { 1 } else { s.range(1, 2) };
        let mut wakers = vec![];
        let mut bumps = 0;
        for _ in 0..nw {
            let ops = match s.pick(8) {
                0 | 1 | 2 | 3 => vec![WOp::Bump, WOp::Wake],
                4 => vec![WOp::Bump, WOp::WakeByRef],
                5 => vec![WOp::Wake, WOp::Bump],                 // planted: wake before the bump
                6 => vec![WOp::Bump],                            // planted: no wake
                _ if nw == 1 && ntasks == 1 => vec![WOp::Bump, WOp::Wake, WOp::Bump, WOp::Wake],
                _ => vec![WOp::Bump, WOp::Wake],
            };
            bumps += ops.iter().filter(|o| **o == WOp::Bump).count();
            wakers.push(ops);
        }
        let need = if s.chance(1, 5) { s.range(1, bumps.max(1)) } else { bumps.max(1) } as u8;
        tasks.push(Task {
            order: if atomic_waker { [0, 0, 2, 1][s.pick(4)] } else { 0 },
            wakers,
            need,
            spawn_in_poll: !atomic_waker || s.chance(1, 2),
        });
    }
    let mut c = Case::new("C20", if atomic_waker { "atomic-waker" } else { "waker-clone" }, Default::default());
    let relaxed = s.chance(1, 2);
    c.x.fut = Some(FutCase { relaxed, atomic_waker, tasks });
    c.cfg.max_permutations = Some(30_000);
    // two tasks or two waking threads: the full exploration exceeds the iteration cap; explore with a
    // preemption bound instead and check only what holds for a subset of the executions
    if ntasks == 2 || c.x.fut.as_ref().map(|f| f.tasks.iter().any(|t| t.wakers.len() == 2)).unwrap_or(false) {
        c.cfg.preemption_bound = Some(2);
    }
    c.cfg.max_branches = 5000;
    c
}

// ---------------------------------------------------------------------------------
// the real thing
// ---------------------------------------------------------------------------------

type Outcome = Vec<u8>; // polls per task

fn run_loom(fc: &FutCase, cfg: &crate::dsl::Config) -> (BTreeSet<Outcome>, Option<String>, usize, bool) {
    use loom::future::{block_on, AtomicWaker};
    use loom::sync::atomic::{AtomicUsize, Ordering};
    use loom::sync::Arc;
    use std::sync::{Arc as SArc, Mutex as SMutex};
    use std::task::{Context, Poll, Waker};

    let outcomes: SArc<SMutex<BTreeSet<Outcome>>> = SArc::new(SMutex::new(BTreeSet::new()));
    let iters = SArc::new(std::sync::atomic::AtomicUsize::new(0));
    let mut b = loom::model::Builder::new();
    b.max_threads = cfg.max_threads;
    b.max_branches = cfg.max_branches;
    b.max_permutations = cfg.max_permutations;
    b.preemption_bound = cfg.preemption_bound;
    b.checkpoint_interval = 64;
    b.checkpoint_file = None;
    b.max_duration = None;
    b.location = false;
    b.log = false;
    let fc = fc.clone();
    let ord = if fc.relaxed { Ordering::Relaxed } else { Ordering::SeqCst };
    let (o2, i2) = (outcomes.clone(), iters.clone());
    let r = std::panic::catch_unwind(std::panic::AssertUnwindSafe(|| {
        b.check(move || {
            i2.fetch_add(1, std::sync::atomic::Ordering::SeqCst);
            let aw = Arc::new(AtomicWaker::new());
            let mut polls_all: Vec<u8> = vec![];
            for task in fc.tasks.iter() {
                let counter = Arc::new(AtomicUsize::new(0));
                let is_aw_mode = fc.atomic_waker;
                let handles: std::cell::RefCell<Vec<loom::thread::JoinHandle<()>>> = std::cell::RefCell::new(vec![]);
                // a `wake()` consumes its waker: every waking thread gets as many clones as it has Wake ops
                let spawn_wakers = |cxw: Option<&Waker>, counter: &Arc<AtomicUsize>, aw: &Arc<AtomicWaker>| {
                    for ops in task.wakers.iter() {
                        let (ops2, c2, a2) = (ops.clone(), counter.clone(), aw.clone());
                        let n_wake = ops.iter().filter(|o| **o == WOp::Wake).count();
                        let mut clones: Vec<Waker> = match cxw {
                            Some(w) => (0..n_wake + 1).map(|_| w.clone()).collect(),
                            None => vec![],
                        };
                        let h = loom::thread::spawn(move || {
                            for op in ops2 {
                                match op {
                                    WOp::Bump => {
                                        c2.fetch_add(1, ord);
                                    }
                                    WOp::Wake => {
                                        if is_aw_mode {
                                            a2.wake();
                                        } else if let Some(w) = clones.pop() {
                                            w.wake();
                                        }
                                    }
                                    WOp::WakeByRef => {
                                        if is_aw_mode {
                                            a2.wake();
                                        } else if let Some(w) = clones.last() {
                                            w.wake_by_ref();
                                        }
                                    }
                                }
                            }
                        });
                        handles.borrow_mut().push(h);
                    }
                };
                if fc.atomic_waker && !task.spawn_in_poll {
                    spawn_wakers(None, &counter, &aw);
                }
                let mut polls: u8 = 0;
                let need = task.need as usize;
                let order = task.order;
                let spawn_in_poll = task.spawn_in_poll;
                let is_aw = fc.atomic_waker;
                let fut = std::future::poll_fn(|cx: &mut Context<'_>| {
                    polls += 1;
                    if polls == 1 && spawn_in_poll {
                        if is_aw {
                            spawn_wakers(None, &counter, &aw);
                        } else {
                            spawn_wakers(Some(cx.waker()), &counter, &aw);
                        }
                    }
                    if is_aw && order == 0 {
                        aw.register_by_ref(cx.waker());
                    }
                    if counter.load(ord) >= need {
                        return Poll::Ready(());
                    }
                    if is_aw && order != 0 {
                        aw.register_by_ref(cx.waker());
                        if order == 2 && counter.load(ord) >= need {
                            return Poll::Ready(());
                        }
                    }
                    Poll::Pending
                });
                block_on(fut);
                polls_all.push(polls);
                // the waking threads of a task are joined before the next task starts
                for h in handles.borrow_mut().drain(..) {
                    h.join().unwrap();
                }
            }
            o2.lock().unwrap().insert(polls_all);
        })
    }));
    let panic = r.err().map(panic_msg);
    let n = iters.load(std::sync::atomic::Ordering::SeqCst);
    let capped = panic.is_none() && cfg.max_permutations.map(|m| n + 64 >= m).unwrap_or(false);
    let out = outcomes.lock().unwrap().clone();
    (out, panic, n, capped)
}

// ---------------------------------------------------------------------------------
// R-FUT: the reference
// ---------------------------------------------------------------------------------

#[derive(Clone, PartialEq, Eq, Hash, Debug)]
struct FSt {
    task: usize,
    /// main's position inside the current task: 0 before block_on, 1.. steps of a poll, 100 = decide wait, 101 = committed real wait
    phase: u8,
    polls: Vec<u8>,
    counter: Vec<u8>,
    notified: Vec<bool>,
    spurred: Vec<bool>,
    /// AtomicWaker slot: task whose waker is registered
    slot: Option<u8>,
    /// waking threads: (task, index) -> (started, pc)
    wk: Vec<(bool, u8)>,
    done: bool,
}

struct Fut<'a> {
    fc: &'a FutCase,
    /// flat index of waking thread j of task t
    base: Vec<usize>,
}

impl<'a> Fut<'a> {
    fn new(fc: &'a FutCase) -> Fut<'a> {
        let mut base = vec![];
        let mut n = 0;
        for t in &fc.tasks {
            base.push(n);
            n += t.wakers.len();
        }
        Fut { fc, base }
    }
    fn init(&self) -> FSt {
        let nt = self.fc.tasks.len();
        let nw: usize = self.fc.tasks.iter().map(|t| t.wakers.len()).sum();
        FSt {
            task: 0,
            phase: 0,
            polls: vec![0; nt],
            counter: vec![0; nt],
            notified: vec![false; nt],
            spurred: vec![false; nt],
            slot: None,
            wk: vec![(false, 0); nw],
            done: false,
        }
    }
    fn start_wakers(&self, s: &mut FSt, t: usize) {
        for j in 0..self.fc.tasks[t].wakers.len() {
            s.wk[self.base[t] + j].0 = true;
        }
    }
    /// successors of main
    fn main_steps(&self, st: &FSt, out: &mut Vec<FSt>) {
        if st.done {
            return;
        }
        let t = st.task;
        let task = &self.fc.tasks[t];
        let aw = self.fc.atomic_waker;
        let mut s = st.clone();
        let ready = |s: &FSt| s.counter[t] >= task.need;
        let finish = |s: &mut FSt| {
            // (block_on returned; the join of the task's waking threads is phase 200)
            s.phase = 200;
        };
        match st.phase {
            0 => {
                // before block_on: spawn the waking threads (AtomicWaker mode, not in poll)
                if aw && !task.spawn_in_poll {
                    self.start_wakers(&mut s, t);
                }
                s.phase = 1;
                out.push(s);
            }
            1 => {
                // start of a poll
                s.polls[t] += 1;
                if s.polls[t] == 1 && task.spawn_in_poll {
                    self.start_wakers(&mut s, t);
                }
                s.phase = if aw && task.order == 0 { 2 } else { 3 };
                out.push(s);
            }
            2 => {
                // register (order 0)
                s.slot = Some(t as u8);
                s.phase = 3;
                out.push(s);
            }
            3 => {
                // first check
                if ready(&s) {
                    finish(&mut s);
                } else if aw && task.order != 0 {
                    s.phase = 4;
                } else {
                    s.phase = 100;
                }
                out.push(s);
            }
            4 => {
                // register after the check
                s.slot = Some(t as u8);
                s.phase = if task.order == 2 { 5 } else { 100 };
                out.push(s);
            }
            5 => {
                // second check
                if ready(&s) {
                    finish(&mut s);
                } else {
                    s.phase = 100;
                }
                out.push(s);
            }
            100 => {
                // Notify::wait: the single spurious return, or a real wait
                if !s.spurred[t] {
                    let mut s2 = s.clone();
                    s2.spurred[t] = true;
                    s2.phase = 1;
                    out.push(s2);
                }
                s.phase = 101;
                out.push(s);
            }
            101 => {
                if s.notified[t] {
                    s.notified[t] = false;
                    s.phase = 1;
                    out.push(s);
                }
            }
            200 => {
                let all_done = (0..task.wakers.len()).all(|j| {
                    let (started, pc) = s.wk[self.base[t] + j];
                    started && pc as usize >= task.wakers[j].len()
                });
                if all_done {
                    if t + 1 < self.fc.tasks.len() {
                        s.task = t + 1;
                        s.phase = 0;
                    } else {
                        s.done = true;
                    }
                    out.push(s);
                }
            }
            _ => {}
        }
    }
    fn waker_steps(&self, st: &FSt, t: usize, j: usize, out: &mut Vec<FSt>) {
        let idx = self.base[t] + j;
        let (started, pc) = st.wk[idx];
        let ops = &self.fc.tasks[t].wakers[j];
        if !started || pc as usize >= ops.len() {
            return;
        }
        let mut s = st.clone();
        match ops[pc as usize] {
            WOp::Bump => s.counter[t] += 1,
            WOp::Wake | WOp::WakeByRef => {
                if self.fc.atomic_waker {
                    if let Some(x) = s.slot.take() {
                        s.notified[x as usize] = true;
                    }
                } else {
                    s.notified[t] = true;
                }
            }
        }
        s.wk[idx].1 += 1;
        out.push(s);
    }
    fn explore(&self) -> (BTreeSet<Outcome>, bool, usize) {
        let mut seen: HashSet<FSt> = HashSet::new();
        let mut stack = vec![self.init()];
        let mut outs = BTreeSet::new();
        let mut deadlock = false;
        let mut next = vec![];
        while let Some(st) = stack.pop() {
            if !seen.insert(st.clone()) {
                continue;
            }
            next.clear();
            self.main_steps(&st, &mut next);
            for t in 0..self.fc.tasks.len() {
                for j in 0..self.fc.tasks[t].wakers.len() {
                    self.waker_steps(&st, t, j, &mut next);
                }
            }
            if next.is_empty() {
                if st.done {
                    outs.insert(st.polls.clone());
                } else {
                    deadlock = true;
                }
            }
            // main done but waking threads still running: outcome is fixed already
            if st.done {
                outs.insert(st.polls.clone());
            }
            stack.extend(next.drain(..));
        }
        (outs, deadlock, seen.len())
    }
}

pub fn eval(case: &Case) -> Verdict {
    let fc = match &case.x.fut {
        Some(f) => f.clone(),
        None => return Verdict::skip("no future table"),
    };
    let mut v = Verdict::pass();
    // sanity of the table
    let nthreads: usize = 1 + fc.tasks.iter().map(|t| t.wakers.len()).sum::<usize>();
    if nthreads > 5 || fc.tasks.is_empty() {
        return Verdict::skip("ill-formed future table");
    }
    let r = Fut::new(&fc);
    let (expect, deadlock, states) = r.explore();
    v.ref_states = states as u64;
    let (l, panic, iters, capped) = run_loom(&fc, &case.cfg);
    v.loom_iters = iters as u64;
    if capped {
        return Verdict::skip("capped");
    }
    v.label(if fc.atomic_waker { "atomic_waker" } else { "waker_clone" });
    v.label(&format!("tasks{}", fc.tasks.len()));
    if deadlock {
        v.label("deadlock_reachable");
    }
    if fc.relaxed {
        v.label("relaxed_counter");
    }
    if fc.tasks.iter().any(|t| t.order == 1) {
        v.label("check_then_register");
    }
    if fc.tasks.iter().any(|t| t.wakers.iter().any(|w| w.first() == Some(&WOp::Wake))) {
        v.label("wake_before_bump");
    }
    let maxp = expect.iter().map(|o| *o.iter().max().unwrap_or(&0)).max().unwrap_or(0);
    if maxp >= 3 {
        v.label("three_polls_possible");
    }
    v.nontrivial = expect.len() >= 2 || deadlock;
    v.detail = serde_json::json!({
        "expected_polls": expect.iter().map(|o| format!("{:?}", o)).collect::<Vec<_>>(),
        "observed_polls": l.iter().map(|o| format!("{:?}", o)).collect::<Vec<_>>(),
        "deadlock_reachable": deadlock, "loom": {"iterations": iters, "panic": panic},
    });
    match &panic {
        Some(m) => {
            let k = panic_kind(m);
            if k != "deadlock" {
                return v.fail("unexpected_panic", format!("model run panicked with `{}`", m));
            }
            if !deadlock {
                return v.fail("false_deadlock", format!("loom reported `{}` but in the reference every wait is eventually followed by a wake (lost wake-up)", m));
            }
        }
        None => {
            if deadlock && case.cfg.preemption_bound.is_none() {
                return v.fail("missed_deadlock", format!("the reference reaches a state in which the blocked future can never be woken, but the run completed ({} iterations)", iters));
            }
        }
    }
    if let Some(x) = l.iter().find(|x| !expect.contains(*x)) {
        return v.fail("impossible_poll_count", format!("block_on polled {:?} times (per task); the reference allows only {:?} (a re-poll without a wake or the one spurious return)", x, expect));
    }
    if case.cfg.preemption_bound.is_some() {
        v.label("preemption_bounded_subset_only");
    }
    if panic.is_none() && case.cfg.preemption_bound.is_none() {
        if let Some(x) = expect.iter().find(|x| !l.contains(*x)) {
            return v.fail("missing_outcome", format!("poll counts {:?} are possible but never explored (explored: {:?})", x, l));
        }
    }
    v
}
