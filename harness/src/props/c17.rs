//! C17: thread_local! and lazy_static! keep per-thread / per-execution semantics.
//!
//! Programs over the harness's two loom thread-locals and two loom lazy statics (values carry
//! init/drop bookkeeping, an UnsafeCell written by the lazy initialiser, and a destructor that
//! calls `try_with`). Oracle: the shared R-SC comparison (values private per thread, L == SC, no
//! causality violation on the cell created in the lazy initialiser) plus per-iteration
//! invariants on the bookkeeping notes.

use crate::case::*;
use crate::dsl::*;
use crate::gen::{self, Src};
use crate::interp::{self, IterRec};
use crate::props::sc;
use std::collections::{BTreeMap, BTreeSet};

pub fn build(draws: &[u16], tier: Tier) -> Case {
    let mut s = Src::new(draws);
    let extra = if tier == Tier::Thorough { 1 } else { 0 };
    let (family, prog) = match s.pick(3) {
        0 => ("tls-lazy", gen::tls_lazy_prog(&mut s, 3, 7 + extra, false)),
        1 => ("tls-lazy+atomics", gen::tls_lazy_prog(&mut s, 3, 7 + extra, true)),
        _ => ("tls-lazy-2threads", gen::tls_lazy_prog(&mut s, 1, 6 + extra, true)),
    };
    let mut c = Case::new("C17", family, prog);
    c.cfg.max_permutations = Some(tier.iter_cap());
    c.cfg.max_branches = 5000;
    c
}

fn touched(p: &Program, rec: &IterRec) -> (BTreeSet<(usize, usize)>, BTreeSet<usize>) {
    let mut tls = BTreeSet::new();
    let mut lazy = BTreeSet::new();
    for (t, i) in &rec.log {
        match &p.threads[*t as usize][*i as usize] {
            Op::TlsWith { k } | Op::TlsBump { k } => {
                tls.insert((*t as usize, *k as usize));
            }
            Op::TlsNested { .. } => {
                tls.insert((*t as usize, 0));
                tls.insert((*t as usize, 1));
            }
            Op::LazyGet { k } | Op::LazyCellRead { k } => {
                lazy.insert(*k as usize);
            }
            _ => {}
        }
    }
    (tls, lazy)
}

fn invariants(p: &Program, rec: &IterRec, i: usize) -> Option<(String, String)> {
    let (tls, lazy) = touched(p, rec);
    let mut inits: BTreeMap<(usize, usize), usize> = BTreeMap::new();
    let mut drops: BTreeMap<(usize, usize), usize> = BTreeMap::new();
    let mut lazy_inits: BTreeMap<usize, usize> = BTreeMap::new();
    let mut lazy_drops: BTreeMap<usize, usize> = BTreeMap::new();
    let mut addrs: BTreeMap<usize, BTreeSet<i64>> = BTreeMap::new();
    for n in &rec.notes {
        match n.0 {
            interp::NOTE_TLS_INIT => *inits.entry((n.2 as usize, n.1 as usize)).or_insert(0) += 1,
            interp::NOTE_TLS_DROP => {
                let owner = (n.2 & 15) as usize;
                let dropper = ((n.2 >> 4) & 15) as usize;
                *drops.entry((owner, n.1 as usize)).or_insert(0) += 1;
                if owner != dropper {
                    return Some(("tls_dropped_by_other_thread".into(), format!("iteration {}: thread-local {} of t{} was destroyed while t{} was running", i, n.1, owner, dropper)));
                }
                if n.2 & 512 != 0 || n.2 & 256 != 0 {
                    return Some((
                        "tls_access_during_destruction".into(),
                        format!("iteration {}: try_with from the destructor of thread-local {} of t{} gave access to a {} value instead of AccessError", i, n.1, owner, if n.2 & 512 != 0 { "being-destroyed" } else { "destroyed" }),
                    ));
                }
            }
            interp::NOTE_LAZY_INIT => *lazy_inits.entry(n.1 as usize).or_insert(0) += 1,
            interp::NOTE_LAZY_DROP => *lazy_drops.entry(n.1 as usize).or_insert(0) += 1,
            interp::NOTE_LAZY_ADDR => {
                addrs.entry(n.1 as usize).or_default().insert(n.2);
            }
            _ => {}
        }
    }
    for (key, n) in &inits {
        if *n > 1 {
            return Some(("tls_init_twice".into(), format!("iteration {}: thread-local {} of t{} initialised {} times", i, key.1, key.0, n)));
        }
        if !tls.contains(key) {
            return Some(("tls_init_untouched".into(), format!("iteration {}: thread-local {} of t{} initialised although the thread never used it", i, key.1, key.0)));
        }
    }
    for key in &tls {
        if !inits.contains_key(key) {
            return Some(("tls_not_initialised".into(), format!("iteration {}: t{} used thread-local {} but no initialisation happened in this iteration (a value of another thread or iteration is visible)", i, key.0, key.1)));
        }
    }
    if !rec.aborted {
        for (key, _) in &inits {
            let d = drops.get(key).cloned().unwrap_or(0);
            // the thread finished (complete iteration): its locals must have been destroyed exactly once
            if d != 1 {
                return Some(("tls_drop_count".into(), format!("iteration {}: thread-local {} of t{} destroyed {} times by the end of the execution", i, key.1, key.0, d)));
            }
        }
        for k in &lazy {
            let d = lazy_drops.get(k).cloned().unwrap_or(0);
            let i_n = lazy_inits.get(k).cloned().unwrap_or(0);
            // (lazy static 2 has a scheduling point in its initialiser: every value built is dropped once)
            if (*k != 2 && d != 1) || (*k == 2 && d != i_n) {
                return Some(("lazy_drop_count".into(), format!("iteration {}: lazy static {} dropped {} times at the end of the execution", i, k, d)));
            }
        }
    }
    for (k, n) in &lazy_inits {
        if *n > 1 && *k != 2 {
            return Some(("lazy_init_twice".into(), format!("iteration {}: lazy static {} initialised {} times in one execution", i, k, n)));
        }
    }
    for k in &lazy {
        if !lazy_inits.contains_key(k) {
            return Some(("lazy_not_initialised".into(), format!("iteration {}: lazy static {} was used but not initialised in this iteration (the value of an earlier iteration is visible)", i, k)));
        }
        if addrs.get(k).map(|a| a.len()).unwrap_or(0) > 1 {
            return Some(("lazy_different_instances".into(), format!("iteration {}: threads saw different instances of lazy static {}", i, k)));
        }
    }
    None
}

pub fn eval(case: &Case) -> Verdict {
    let p = &case.prog;
    let mut v = Verdict::pass();
    let e = match sc::evaluate(case, &mut v) {
        Ok(e) => e,
        Err(skip) => return skip,
    };
    v.label(&format!("threads{}", p.n_threads()));
    // non-trivial: a lazy static or thread-local key used by two threads
    let mut users: BTreeMap<(u8, u8), BTreeSet<usize>> = BTreeMap::new();
    for (t, _, op) in p.ops() {
        match op {
            Op::TlsWith { k } | Op::TlsBump { k } => {
                users.entry((0, *k)).or_default().insert(t);
            }
            Op::TlsNested { .. } => {
                users.entry((0, 0)).or_default().insert(t);
                users.entry((0, 1)).or_default().insert(t);
            }
            Op::LazyGet { k } | Op::LazyCellRead { k } => {
                users.entry((1, *k)).or_default().insert(t);
            }
            _ => {}
        }
    }
    let lazy_race = users.iter().any(|(k, u)| k.0 == 1 && u.len() >= 2);
    let tls_shared_key = users.iter().any(|(k, u)| k.0 == 0 && u.len() >= 2);
    if lazy_race {
        v.label("lazy_first_access_race");
    }
    if tls_shared_key {
        v.label("tls_key_in_two_threads");
    }
    if p.has(|o| matches!(o, Op::TlsNested { .. })) {
        v.label("nested_with");
    }
    v.nontrivial = lazy_race || tls_shared_key;
    let mut detail = serde_json::Value::Null;
    let r = sc::compare(case, &e, &mut detail);
    v.detail = detail;
    if let Some((kind, msg)) = r {
        return v.fail(&kind, msg);
    }
    for (i, rec) in e.records.iter().enumerate() {
        if let Some((kind, msg)) = invariants(p, rec, i + 1) {
            return v.fail(&kind, msg);
        }
    }
    v
}
