//! C13: exploration is deterministic and resumable from a checkpoint.
//!
//! Every run happens in a fresh child process (loom keeps hash maps seeded per process).
//! O = iteration sequence (op log + results of every iteration, in order) of the
//! uninterrupted run. Oracle:
//!  (a) two fresh processes produce identical O;
//!  (b) a run stopped by `max_permutations` (clean), by a crash injected at iteration k, or by the
//!      program's own failure, produces a prefix of O, and a second fresh process that loads the
//!      checkpoint file continues with exactly O[j..], where j is the iteration at which the last
//!      checkpoint was stored (the last multiple of the interval the first run reached);
//!  (c) in particular with interval 1 a failing iteration is reproduced as the first iteration
//!      after loading, with the same panic message and the same partial op log.

use crate::case::*;
use crate::dsl::*;
use crate::gen::{self, Src, SyncParams};
use crate::script::{self, RunSpec, Script, Step};

pub fn build(draws: &[u16], tier: Tier) -> Case {
    let mut s = Src::new(draws);
    let sp = SyncParams { max_threads: 2, max_ops: 6, ..Default::default() };
    let mode = match s.pick(4) {
        0 | 1 => "clean",
        2 => "crash",
        _ => "fail",
    };
    let (family, mut prog) = match s.pick(7) {
        // thread-locals and lazy statics (values that own a loom Arc): their creation and destruction
        // order is part of an execution
        6 => ("tls-lazy", gen::tls_lazy_prog(&mut s, 3, 7, true)),
        // await loops: the length of the decision path differs between iterations
        5 => ("await", crate::props::c18::await_prog(&mut s, false)),
        0 | 1 => ("litmus", gen::litmus(&mut s, &gen::LitmusParams { sc_only: false, fences: true, rmw: true, free_mix: true, max_threads: 2, max_events: 5, joins: false, late_spawn: true })),
        2 => ("locks", gen::sync_prog(&mut s, &SyncParams { mutex: true, rwlock: true, atomics: true, ordered_locks: true, max_threads: 3, max_ops: 6, ..sp.clone() })),
        3 => ("notify-condvar", gen::sync_prog(&mut s, &SyncParams { notify: true, condvar: true, atomics: true, max_threads: 2, max_ops: 7, joins: true, ..sp.clone() })),
        _ => ("channel", gen::sync_prog(&mut s, &SyncParams { channel: true, atomics: true, max_threads: 3, max_ops: 6, joins: true, ..sp.clone() })),
    };
    if mode == "fail" {
        // make some thread panic when a load returns a particular value: exists only in some iterations
        let mut sites: Vec<(usize, usize)> = vec![];
        for (t, i, op) in prog.ops() {
            if matches!(op, Op::Load { .. } | Op::Swap { .. } | Op::FetchAdd { .. }) {
                sites.push((t, i));
            }
        }
        if !sites.is_empty() {
            let (t, i) = sites[s.pick(sites.len())];
            let v = s.pick(3) as i8;
            prog.threads[t].insert(i + 1, Op::PanicIf { v });
        }
    }
    let mut c = Case::new("C13", family, prog);
    c.x.mode = Some(mode.into());
    c.x.c = Some([1, 1, 2, 3, 5, 7][s.pick(6)] as i64);
    c.x.k = Some(s.pick(65536) as i64);
    if s.chance(1, 4) {
        c.cfg.preemption_bound = Some(s.range(0, 2));
    }
    c.cfg.max_branches = 5000;
    c.cfg.max_permutations = None;
    // a quarter of the cases run with a branch limit just above the longest decision path, an eighth
    // with one just below it (the longest executions then fail with the branch-limit panic, and the
    // checkpoint of such an iteration must reproduce exactly that failure)
    c.x.n = Some(if s.chance(1, 4) {
        1 + s.pick(3) as i64
    } else if s.chance(1, 6) {
        -1 - s.pick(3) as i64
    } else {
        0
    });
    let _ = tier;
    c
}

fn one(spec: RunSpec) -> Result<script::RunResult, Verdict> {
    match script::run_fresh(&Script { steps: vec![Step { runs: vec![spec], parallel: false }] }) {
        Ok(mut r) => Ok(script::normalise(&r.remove(0).remove(0))),
        Err(script::SubErr::Signal(sig)) => Err(Verdict::pass().fail("process_abort", format!("the child process running the model died from signal {}", sig))),
        Err(script::SubErr::Other(e)) => Err(Verdict::skip(&format!("subrun: {}", e))),
    }
}

pub fn eval(case: &Case) -> Verdict {
    let p = &case.prog;
    let mut v = Verdict::pass();
    if let Err(e) = p.well_formed() {
        return Verdict::skip(&format!("ill-formed: {}", e));
    }
    let mode = case.x.mode.clone().unwrap_or_else(|| "clean".into());
    let c = case.x.c.unwrap_or(1).max(1) as usize;
    // size probe in this process (cheap): skip programs that are too long to ship around
    let mut probe_cfg = case.cfg.clone();
    probe_cfg.max_permutations = Some(700);
    probe_cfg.checkpoint_interval = 1;
    let need: std::sync::Arc<std::sync::Mutex<usize>> = std::sync::Arc::new(std::sync::Mutex::new(0));
    let first_len: std::sync::Arc<std::sync::Mutex<usize>> = std::sync::Arc::new(std::sync::Mutex::new(0));
    let n2 = need.clone();
    let f2 = first_len.clone();
    let hook = Box::new(move |ph: loom::verif::Phase, i: usize, path: &[loom::verif::Branch]| {
        if ph == loom::verif::Phase::IterationEnd {
            let mut m = n2.lock().unwrap();
            *m = (*m).max(path.len());
            if i == 1 {
                *f2.lock().unwrap() = path.len();
            }
        }
    });
    let probe = crate::interp::collect_with(p, &probe_cfg, crate::interp::RunOpts { hook: Some(hook), ..Default::default() }, false);
    if probe.report.capped {
        return Verdict::skip("too many iterations");
    }
    let mut case = case.clone();
    let tight = case.x.n.unwrap_or(0);
    if tight != 0 && probe.report.panic.is_none() {
        let need = *need.lock().unwrap() as i64;
        // below the need: not below the length of the first iteration, so that (when the lengths
        // differ) the failure happens in a later iteration and there is a checkpoint to resume from
        let l1 = *first_len.lock().unwrap() as i64;
        case.cfg.max_branches = if tight > 0 { need + tight } else { (need + tight).max(l1.min(need - 1)).max(2) } as usize;
    }
    let case = &case;
    let base = RunSpec { prog: p.clone(), cfg: case.cfg.clone(), ..Default::default() };
    // (a) determinism across fresh processes
    let o1 = match one(base.clone()) {
        Ok(r) => r,
        Err(x) => return x,
    };
    let o2 = match one(base.clone()) {
        Ok(r) => r,
        Err(x) => return x,
    };
    let n = o1.iters;
    v.loom_iters = (o1.iters + o2.iters) as u64;
    v.label(&format!("mode_{}", mode));
    v.label(&format!("interval{}", c));
    if case.cfg.preemption_bound.is_some() {
        v.label("preemption_bound");
    }
    if case.cfg.max_branches < 5000 {
        v.label(if tight < 0 { "max_branches_below_need" } else { "tight_max_branches" });
    }
    if o1 != o2 {
        let at = o1.records.iter().zip(o2.records.iter()).position(|(a, b)| a != b);
        return v.fail(
            "nondeterministic",
            format!("two fresh processes explored different iteration sequences ({} vs {} iterations, panic {:?} vs {:?}, first difference at iteration {:?})", o1.iters, o2.iters, o1.panic, o2.panic, at.map(|x| x + 1)),
        );
    }
    if n < 2 {
        v.detail = serde_json::json!({"N": n, "panic_uninterrupted": o1.panic, "max_branches": case.cfg.max_branches, "longest_path": *need.lock().unwrap(), "first_path": *first_len.lock().unwrap()});
        return v;
    }
    let file = script::scratch_file("ckpt");
    let _ = std::fs::remove_file(&file);
    let fpath = file.to_string_lossy().to_string();
    let mut cfg = case.cfg.clone();
    cfg.checkpoint_interval = c;
    // stop point
    let kraw = case.x.k.unwrap_or(0).max(0) as usize;
    let failing = o1.panic.is_some();
    let (first, reached): (script::RunResult, usize) = match mode.as_str() {
        "crash" if !failing => {
            let k = 1 + (kraw * n) / 65536; // 1..=n
            let r = match one(RunSpec { prog: p.clone(), cfg: cfg.clone(), checkpoint_file: Some(fpath.clone()), crash_at: Some(k), ..Default::default() }) {
                Ok(r) => r,
                Err(x) => return x,
            };
            v.label("crash_injected");
            if r.panic.as_deref().map(|m| m.starts_with("injected crash")) != Some(true) {
                let _ = std::fs::remove_file(&file);
                return v.fail("crash_not_propagated", format!("the panic injected at iteration {} did not unwind out of the model run: {:?}", k, r.panic));
            }
            (r, k)
        }
        "clean" if !failing => {
            let k = 1 + (kraw * (n + 1)) / 65536; // 1..=n+1
            let mut c2 = cfg.clone();
            c2.max_permutations = Some(k);
            let r = match one(RunSpec { prog: p.clone(), cfg: c2, checkpoint_file: Some(fpath.clone()), ..Default::default() }) {
                Ok(r) => r,
                Err(x) => return x,
            };
            v.label("clean_stop");
            if r.panic.is_some() {
                let _ = std::fs::remove_file(&file);
                return v.fail("stop_reports_failure", format!("max_permutations={} made the run panic: {:?}", k, r.panic));
            }
            // the loop top was reached for i = 1 ..= iters+1 when stopped at a boundary, 1 ..= n when exhausted
            let reached = if r.iters < n { r.iters + 1 } else { n };
            (r, reached)
        }
        _ => {
            // the program's own failure (or a failing program in another mode): plain run with the file
            let r = match one(RunSpec { prog: p.clone(), cfg: cfg.clone(), checkpoint_file: Some(fpath.clone()), ..Default::default() }) {
                Ok(r) => r,
                Err(x) => return x,
            };
            if failing {
                v.label("program_fails");
                if tight < 0 && o1.panic.as_deref().map(|m| m.starts_with("Model exceeded maximum number of branches")) == Some(true) {
                    v.label("branch_limit_fails_in_later_iteration");
                }
            } else {
                v.label("plain_run_with_file");
            }
            (r, n)
        }
    };
    v.loom_iters += first.iters as u64;
    // the first run is a prefix of O (complete iterations only)
    let complete = |r: &script::RunResult| -> Vec<crate::interp::IterRec> { r.records.iter().filter(|x| !x.aborted).cloned().collect() };
    let o_complete = complete(&o1);
    let f_complete = complete(&first);
    if f_complete.len() > o_complete.len() || f_complete[..] != o_complete[..f_complete.len()] {
        let _ = std::fs::remove_file(&file);
        return v.fail("first_run_differs", format!("the run with a checkpoint file (interval {}) does not follow the uninterrupted run ({} vs {} complete iterations)", c, f_complete.len(), o_complete.len()));
    }
    // last stored checkpoint
    let j = c * (reached / c);
    let stored = file.exists();
    if (j >= 1) != stored {
        let _ = std::fs::remove_file(&file);
        return v.fail("checkpoint_presence", format!("interval {}, {} iterations reached: a checkpoint file {} expected", c, reached, if j >= 1 { "was" } else { "was not" }));
    }
    // resume in a fresh process (a resumed run that goes on for longer than the whole uninterrupted
    // run has already left its path: cut it off there, the comparison below reports it)
    let mut cfg_resume = cfg.clone();
    cfg_resume.max_permutations = Some(n + 20);
    let second = match one(RunSpec { prog: p.clone(), cfg: cfg_resume, checkpoint_file: Some(fpath.clone()), ..Default::default() }) {
        Ok(r) => r,
        Err(x) => {
            let _ = std::fs::remove_file(&file);
            return x;
        }
    };
    let _ = std::fs::remove_file(&file);
    v.loom_iters += second.iters as u64;
    let start = if j >= 1 { j - 1 } else { 0 };
    let expect: Vec<crate::interp::IterRec> = o1.records[start.min(o1.records.len())..].to_vec();
    v.nontrivial = n >= 3 && reached > 1 && reached <= n && p.n_threads() >= 2;
    v.detail = serde_json::json!({"N": n, "interval": c, "mode": mode, "reached": reached, "resume_from": j, "first_run_iters": first.iters, "second_run_iters": second.iters, "panic_uninterrupted": o1.panic, "panic_resumed": second.panic, "max_branches": case.cfg.max_branches, "longest_path": *need.lock().unwrap(), "first_path": *first_len.lock().unwrap()});
    if second.records != expect {
        let at = second.records.iter().zip(expect.iter()).position(|(a, b)| a != b);
        return v.fail(
            "resume_differs",
            format!(
                "resuming from the checkpoint stored at iteration {} (interval {}, first run reached iteration {}) visited {} iterations, expected the {} remaining ones of the uninterrupted run; first difference at resumed iteration {:?}",
                j, c, reached, second.records.len(), expect.len(), at.map(|x| x + 1)
            ),
        );
    }
    if second.panic != o1.panic {
        return v.fail("resume_failure_differs", format!("uninterrupted run ends with {:?}, resumed run with {:?}", o1.panic, second.panic));
    }
    v
}
