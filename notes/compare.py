import json, sys, subprocess
sys.path.insert(0, '/verif/notes')
from rc11_proto import bounds
def tup(o): return tuple(tuple(x) for x in o)
def run(binary, progfile, cap=100000):
    out = subprocess.run([binary, progfile, str(cap)], capture_output=True, text=True, timeout=3000, env={"RUST_BACKTRACE":"0"})
    return [json.loads(l) for l in out.stdout.splitlines() if l.startswith("{")]
def compare(progs, names, binary, verbose=True):
    json.dump(progs, open('/tmp/lit/_p.json','w'))
    res = run(binary, '/tmp/lit/_p.json')
    stats = dict(ok=0, missing=0, forbidden=0, capped=0, panic=0)
    bad = []
    for p, name, r in zip(progs, names, res):
        if r["panic"]: stats["panic"] += 1; bad.append((name, p, "panic", r["panic"])); continue
        if r["capped"]: stats["capped"] += 1; continue
        L = set(tup(o) for o in r["outcomes"])
        A, U = bounds(p)
        miss = A - L; forb = L - U
        if miss: stats["missing"] += 1
        if forb: stats["forbidden"] += 1
        if not miss and not forb: stats["ok"] += 1
        else: bad.append((name, p, sorted(miss), sorted(forb), r["iters"]))
    return stats, bad
if __name__ == "__main__":
    import pickle
    names, _ = pickle.load(open('/tmp/lit/cat.pkl','rb'))
    progs = json.load(open('/tmp/lit/cat.json'))
    for binary in sys.argv[1:]:
        stats, bad = compare(progs, names, binary)
        print(binary, stats)
        for b in bad: print("   ", b[0], "missing=", b[2], "forbidden=", b[3])
