import json, random, sys, time
sys.path.insert(0, '/verif/notes'); sys.path.insert(0, '/tmp/lit')
from compare import compare
LD=["rlx","acq","sc"]; ST=["rlx","rel","sc"]; RMW=["rlx","acq","rel","ar","sc"]; FN=["acq","rel","ar","sc"]
def gen(rng, maxev=6):
    nlocs = rng.choice([1,1,2,2,3])
    nth = rng.choice([2,2,3])
    main_works = rng.random() < 0.3
    nextval = [1]*nlocs
    threads = []
    total = 0
    for t in range(nth+1):
        ops = []
        if t == 0 and not main_works:
            threads.append(ops); continue
        k = rng.choice([1,2,2,3])
        for _ in range(k):
            if total >= maxev: break
            r = rng.random(); l = rng.randrange(nlocs)
            if r < 0.35:
                ops.append(["st", l, nextval[l], rng.choice(ST)]); nextval[l]+=1; total+=1
            elif r < 0.7:
                ops.append(["ld", l, rng.choice(LD)]); total+=1
            elif r < 0.8:
                ops.append(["swap", l, nextval[l], rng.choice(RMW)]); nextval[l]+=1; total+=1
            elif r < 0.87:
                ops.append(["fadd", l, 10, rng.choice(RMW)]); total+=1
            elif r < 0.92:
                ops.append(["cas", l, rng.choice([0,1]), nextval[l], rng.choice(RMW), rng.choice(LD)]); nextval[l]+=1; total+=1
            else:
                ops.append(["fence", rng.choice(FN)])
        threads.append(ops)
    return {"nlocs": nlocs, "threads": threads}
if __name__ == "__main__":
    seed = int(sys.argv[1]); n = int(sys.argv[2]); maxev = int(sys.argv[3])
    rng = random.Random(seed)
    progs = [gen(rng, maxev) for _ in range(n)]
    names = [f"r{seed}_{i}" for i in range(n)]
    for binary in sys.argv[4:]:
        t0 = time.time()
        stats, bad = compare(progs, names, binary)
        print(binary, stats, f"{time.time()-t0:.1f}s")
        json.dump([(b[0], b[1], [list(map(list,x)) for x in b[2]] if isinstance(b[2], list) else b[2], [list(map(list,x)) for x in b[3]] if isinstance(b[3], list) else b[3]) for b in bad], open(f"bad_{binary.strip('./')}_{seed}.json","w"))
