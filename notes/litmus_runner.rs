// usage: litmus <programs.json>  -> prints one JSON line per program: {"outcomes":[[...]],"iters":n,"panic":..}
use loom::sync::atomic::{fence, AtomicUsize};
use loom::thread;
use serde_json::Value;
use std::collections::BTreeSet;
use std::sync::atomic::Ordering::{self, *};
use std::sync::{Arc, Mutex};

#[derive(Clone, Debug)]
enum Op { Naw(usize), Nar(usize), Await(usize, usize, Ordering), St(usize, usize, Ordering), Ld(usize, Ordering), Swap(usize, usize, Ordering), Fadd(usize, usize, Ordering), Cas(usize, usize, usize, Ordering, Ordering), Fence(Ordering) }
fn ord(s: &str) -> Ordering { match s { "rlx" => Relaxed, "acq" => Acquire, "rel" => Release, "ar" => AcqRel, "sc" => SeqCst, _ => panic!("ord {}", s) } }
fn parse_op(v: &Value) -> Op {
    let a = v.as_array().unwrap();
    let k = a[0].as_str().unwrap();
    let u = |i: usize| a[i].as_u64().unwrap() as usize;
    let o = |i: usize| ord(a[i].as_str().unwrap());
    match k { "naw" => Op::Naw(u(1)), "nar" => Op::Nar(u(1)), "await" => Op::Await(u(1), u(2), o(3)), "st" => Op::St(u(1), u(2), o(3)), "ld" => Op::Ld(u(1), o(2)), "swap" => Op::Swap(u(1), u(2), o(3)), "fadd" => Op::Fadd(u(1), u(2), o(3)), "cas" => Op::Cas(u(1), u(2), u(3), o(4), o(5)), "fence" => Op::Fence(o(1)), _ => panic!() }
}
fn exec(ops: &[Op], locs: &[Arc<AtomicUsize>], cells: &[Arc<loom::cell::UnsafeCell<usize>>]) -> Vec<i64> {
    let mut out = vec![];
    for op in ops {
        match *op {
            Op::Naw(c) => cells[c].with_mut(|p| unsafe { *p += 1 }),
            Op::Nar(c) => { cells[c].with(|p| unsafe { *p }); }
            Op::Await(l, v, o) => { while locs[l].load(o) != v { thread::yield_now(); } }
            Op::St(l, v, o) => locs[l].store(v, o),
            Op::Ld(l, o) => out.push(locs[l].load(o) as i64),
            Op::Swap(l, v, o) => out.push(locs[l].swap(v, o) as i64),
            Op::Fadd(l, k, o) => out.push(locs[l].fetch_add(k, o) as i64),
            Op::Cas(l, e, n, s, f) => out.push(match locs[l].compare_exchange(e, n, s, f) { Ok(v) => v as i64, Err(v) => -(v as i64) - 1 }),
            Op::Fence(o) => fence(o),
        }
    }
    out
}
fn main() {
    let path = std::env::args().nth(1).unwrap();
    let cap: usize = std::env::args().nth(2).map(|s| s.parse().unwrap()).unwrap_or(100_000);
    let progs: Value = serde_json::from_str(&std::fs::read_to_string(path).unwrap()).unwrap();
    std::panic::set_hook(Box::new(|_| {}));
    for p in progs.as_array().unwrap() {
        let nlocs = p["nlocs"].as_u64().unwrap() as usize;
        let threads: Vec<Vec<Op>> = p["threads"].as_array().unwrap().iter().map(|t| t.as_array().unwrap().iter().map(parse_op).collect()).collect();
        let threads = Arc::new(threads);
        let pre: Arc<Vec<Op>> = Arc::new(p.get("pre").and_then(|v| v.as_array()).map(|a| a.iter().map(parse_op).collect()).unwrap_or_default());
        let post: Arc<Vec<Op>> = Arc::new(p.get("post").and_then(|v| v.as_array()).map(|a| a.iter().map(parse_op).collect()).unwrap_or_default());
        let set = Arc::new(Mutex::new(BTreeSet::new()));
        let iters = Arc::new(Mutex::new(0usize));
        let (s2, i2, th2) = (set.clone(), iters.clone(), threads.clone());
        let mut b = loom::model::Builder::new();
        b.checkpoint_interval = 1000; b.max_permutations = Some(cap); b.max_branches = 5000;
        let r = std::panic::catch_unwind(std::panic::AssertUnwindSafe(|| b.check(move || {
            *i2.lock().unwrap() += 1;
            let locs: Vec<_> = (0..nlocs).map(|_| Arc::new(AtomicUsize::new(0))).collect();
            let cells: Vec<_> = (0..2).map(|_| Arc::new(loom::cell::UnsafeCell::new(0usize))).collect();
            let pre_out = exec(&pre, &locs, &cells);
            // thread 0 = main; others spawned
            let hs: Vec<_> = (1..th2.len()).map(|t| { let locs = locs.clone(); let cells = cells.clone(); let th = th2.clone(); thread::spawn(move || exec(&th[t], &locs, &cells)) }).collect();
            let mut out = vec![exec(&th2[0], &locs, &cells)];
            for h in hs { out.push(h.join().unwrap()); }
            if !pre.is_empty() { out.push(pre_out); }
            if !post.is_empty() { out.push(exec(&post, &locs, &cells)); }
            let fin: Vec<i64> = locs.iter().map(|l| l.load(Relaxed) as i64).collect();
            out.push(fin);
            s2.lock().unwrap().insert(out);
        })));
        let n = *iters.lock().unwrap();
        let pm = r.err().map(|e| scratch::msg(e));
        let outs: Vec<_> = set.lock().unwrap().iter().cloned().collect();
        println!("{}", serde_json::json!({"outcomes": outs, "iters": n, "panic": pm, "capped": n >= cap - 1}));
    }
}
