import json, random, sys
sys.path.insert(0, '/verif/notes'); sys.path.insert(0, '/tmp/lit')
from srnd import gen, run, tup
from rsc_proto import explore
TRY = {"trylock","tryread","trywrite","tryrecv"}
for fam in sys.argv[3:]:
    seed = int(sys.argv[1]); n = int(sys.argv[2])
    rng = random.Random(seed)
    progs = [gen(rng, fam) for _ in range(n)]
    res, rc = run('./sync_fix', progs)
    bad_try = bad_notry = ok_try = ok_notry = 0
    ex = []
    for p, r in zip(progs, res):
        SC, dl, _ = explore(p)
        L = set(tup(o) for o in r["outcomes"]); pm = r["panic"]
        has_try = any(op[0] in TRY for t in p["threads"] for op in t)
        if r["capped"]: continue
        if dl or pm:
            bad = (bool(dl) != bool(pm and pm.startswith("deadlock")))
        else:
            bad = bool(SC - L) or (bool(L - SC) and "at" not in fam and fam != "park")
        if bad:
            if has_try: bad_try += 1
            else: bad_notry += 1; ex.append((p["threads"], sorted(SC-L)[:3], sorted(L-SC)[:3], pm))
        else:
            if has_try: ok_try += 1
            else: ok_notry += 1
    print(fam, dict(bad_try=bad_try, bad_notry=bad_notry, ok_try=ok_try, ok_notry=ok_notry))
    for e in ex[:5]: print("    ", json.dumps(e)[:400])
