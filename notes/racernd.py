import json, random, subprocess, sys
sys.path.insert(0, '/verif/notes')
from rc11_proto import race_bounds
ST=["rlx","rel","sc"]; LD=["rlx","acq","sc"]; FN=["acq","rel","ar","sc"]
def gen(rng):
    nth = rng.choice([2,2,3])
    nlocs = rng.choice([1,2])
    threads = [[] for _ in range(nth+1)]
    spinner = rng.randrange(1, nth+1)
    # flags: location l written once by thread w(l) != spinner
    writers = {}
    for l in range(nlocs):
        ws = [t for t in range(1, nth+1) if t != spinner]
        writers[l] = rng.choice(ws) if ws else None
    for t in range(1, nth+1):
        ops = []
        n = rng.choice([2,3,3,4])
        stored = set()
        for _ in range(n):
            r = rng.random()
            if r < 0.3: ops.append([rng.choice(["naw","nar"]), rng.randrange(1)])
            elif r < 0.5 and t == spinner:
                l = rng.randrange(nlocs)
                if writers[l] is not None: ops.append(["await", l, 1, rng.choice(LD)])
            elif r < 0.7:
                ls = [l for l in range(nlocs) if writers[l] == t and l not in stored]
                if ls:
                    l = rng.choice(ls); stored.add(l); ops.append(["st", l, 1, rng.choice(ST)])
            elif r < 0.85: ops.append(["fence", rng.choice(FN)])
            else: ops.append(["ld", rng.randrange(nlocs), rng.choice(LD)])
        # make sure flag writers do store
        for l in range(nlocs):
            if writers[l] == t and l not in stored:
                ops.insert(rng.randrange(len(ops)+1), ["st", l, 1, rng.choice(ST)])
        threads[t] = ops
    p = {"nlocs": nlocs, "threads": threads}
    if rng.random() < 0.3: p["pre"] = [["naw", 0]]
    if rng.random() < 0.3: p["post"] = [[rng.choice(["naw","nar"]), 0]]
    return p
def run(binary, progs, cap=60000):
    json.dump(progs, open('/tmp/lit/_r.json','w'))
    out = subprocess.run([binary, '/tmp/lit/_r.json', str(cap)], capture_output=True, text=True, timeout=3000, env={"RUST_BACKTRACE":"0"})
    return [json.loads(l) for l in out.stdout.splitlines() if l.startswith("{")]
if __name__ == "__main__":
    seed = int(sys.argv[1]); n = int(sys.argv[2])
    rng = random.Random(seed)
    progs = [gen(rng) for _ in range(n)]
    progs = [p for p in progs if any(op[0] in ("naw","nar") for t in p["threads"] for op in t)]
    for binary in sys.argv[3:]:
        res = run(binary, progs)
        st = dict(racy_ok=0, clean_ok=0, missed=0, false_alarm=0, other=0, capped=0, gray=0)
        bad = []
        for p, r in zip(progs, res):
            must, may = race_bounds(p)
            pm = r["panic"]
            if r["capped"]: st["capped"] += 1; continue
            if pm and not pm.startswith("Causality"): st["other"] += 1; bad.append((p, pm)); continue
            rep = bool(pm)
            if must and not rep: st["missed"] += 1; bad.append((p, "missed race"))
            elif rep and not may: st["false_alarm"] += 1; bad.append((p, "false alarm " + pm))
            elif must != may: st["gray"] += 1
            elif rep: st["racy_ok"] += 1
            else: st["clean_ok"] += 1
        print(binary, st)
        for b in bad[:8]: print("    ", json.dumps(b[0]), b[1])
