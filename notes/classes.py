import json, sys
def k7b(p):
    for l in range(p["nlocs"]):
        rmw_th = set(); st_th = set()
        for t, ops in enumerate(p["threads"]):
            for op in ops:
                if op[0] in ("swap","fadd","cas") and op[1]==l: rmw_th.add(t)
                if op[0]=="st" and op[1]==l: st_th.add(t)
        if any(a!=b for a in rmw_th for b in st_th): return True
    return False
def k7a(p):
    for l in range(p["nlocs"]):
        ws = [(t) for t, ops in enumerate(p["threads"]) for op in ops if op[0] in ("st","swap","fadd","cas") and op[1]==l]
        plain = [t for t, ops in enumerate(p["threads"]) for op in ops if op[0]=="st" and op[1]==l]
        if len(ws)>=3 and len(set(ws))>=2 and plain: return True
    return False
if __name__ == "__main__":
    for f in sys.argv[1:]:
        bad = json.load(open(f))
        out = [b for b in bad if not k7a(b[1]) and not k7b(b[1])]
        print(f, "bad", len(bad), "k7b", sum(k7b(b[1]) for b in bad), "k7a", sum(k7a(b[1]) for b in bad), "outside", len(out))
        for b in out: print("   ", b[0], json.dumps(b[1]["threads"]), "missing", b[2][:3], "forbidden", b[3][:3])
