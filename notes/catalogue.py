import json, sys
sys.path.insert(0, '/verif/notes')
from rc11_proto import bounds
def P(nlocs, *threads): return {"nlocs": nlocs, "threads": [list(t) for t in threads]}
cat = {
 "SB rlx": P(2, [["st",1,1,"rlx"],["ld",0,"rlx"]], [["st",0,1,"rlx"],["ld",1,"rlx"]]),
 "SB sc": P(2, [["st",1,1,"sc"],["ld",0,"sc"]], [["st",0,1,"sc"],["ld",1,"sc"]]),
 "SB fences sc": P(2, [["st",1,1,"rlx"],["fence","sc"],["ld",0,"rlx"]], [["st",0,1,"rlx"],["fence","sc"],["ld",1,"rlx"]]),
 "MP rel/acq": P(2, [], [["st",0,1,"rlx"],["st",1,1,"rel"]], [["ld",1,"acq"],["ld",0,"rlx"]]),
 "MP rlx": P(2, [], [["st",0,1,"rlx"],["st",1,1,"rlx"]], [["ld",1,"rlx"],["ld",0,"rlx"]]),
 "MP fences": P(2, [], [["st",0,1,"rlx"],["fence","rel"],["st",1,1,"rlx"]], [["ld",1,"rlx"],["fence","acq"],["ld",0,"rlx"]]),
 "LB": P(2, [], [["ld",0,"rlx"],["st",1,1,"rlx"]], [["ld",1,"rlx"],["st",0,1,"rlx"]]),
 "CoRR": P(1, [], [["st",0,1,"rlx"]], [["ld",0,"rlx"],["ld",0,"rlx"]]),
 "2+2W": P(2, [], [["st",0,1,"rlx"],["st",1,2,"rlx"]], [["st",1,1,"rlx"],["st",0,2,"rlx"]]),
 "C03 coh": P(1, [], [["st",0,1,"rlx"],["st",0,2,"rlx"]], [["st",0,3,"rlx"],["ld",0,"rlx"]]),
 "C03 rmw": P(1, [], [["st",0,1,"rlx"]], [["swap",0,2,"rlx"]]),
 "C01 ex": P(1, [["st",0,1,"sc"],["ld",0,"sc"]], [["ld",0,"sc"],["st",0,2,"sc"]]),
 "C02 fence": P(3, [], [["st",1,1,"rlx"],["st",0,1,"rel"]], [["ld",0,"rlx"],["st",2,1,"rel"]], [["ld",2,"acq"],["fence","acq"],["ld",1,"rlx"]]),
 "RWC+syncs": P(2, [["st",0,1,"rlx"]], [["ld",0,"rlx"],["fence","sc"],["ld",1,"rlx"]], [["st",1,1,"rlx"],["fence","sc"],["ld",0,"rlx"]]),
 "W+RWC": P(3, [["st",0,1,"rlx"],["st",2,1,"rel"]], [["ld",2,"acq"],["fence","sc"],["ld",1,"rlx"]], [["st",1,1,"rlx"],["fence","sc"],["ld",0,"rlx"]]),
 "relseq rmw": P(2, [], [["st",0,1,"rlx"],["st",1,1,"rel"]], [["fadd",1,1,"rlx"]], [["ld",1,"acq"],["ld",0,"rlx"]]),
 "cas": P(1, [], [["cas",0,0,1,"ar","rlx"]], [["cas",0,0,2,"ar","rlx"]]),
}
json.dump(list(cat.values()), open('cat.json','w'))
res = {}
for k, p in cat.items():
    A, U = bounds(p)
    res[k] = (A, U)
    print(k, "A=", len(A), "U=", len(U))
import pickle; pickle.dump((list(cat.keys()), res), open('cat.pkl','wb'))
