use loom::future::{block_on, AtomicWaker};
use loom::sync::atomic::AtomicUsize;
use loom::thread;
use scratch::*;
use std::future::Future;
use std::pin::Pin;
use std::sync::atomic::Ordering::*;
use std::sync::Arc;
use std::task::{Context, Poll};

struct PollFn<F>(F);
impl<F: FnMut(&mut Context<'_>) -> Poll<T> + Unpin, T> Future for PollFn<F> {
    type Output = T;
    fn poll(mut self: Pin<&mut Self>, cx: &mut Context<'_>) -> Poll<T> { (self.0)(cx) }
}
fn main() {
    show("waker handed to thread", outcomes(builder(), || {
        let flag = Arc::new(AtomicUsize::new(0));
        let mut polls = 0usize;
        let mut spawned = false;
        let f2 = flag.clone();
        let out = block_on(PollFn(|cx: &mut Context<'_>| {
            polls += 1;
            if !spawned { spawned = true; let w = cx.waker().clone(); let f = f2.clone(); thread::spawn(move || { f.store(1, Release); w.wake(); }); }
            if f2.load(Acquire) == 1 { Poll::Ready(polls) } else { Poll::Pending }
        }));
        out
    }));
    show("atomic waker 1 waker thread", outcomes(builder(), || {
        let flag = Arc::new(AtomicUsize::new(0));
        let aw = Arc::new(AtomicWaker::new());
        let (f, a) = (flag.clone(), aw.clone());
        let t = thread::spawn(move || { f.store(1, Release); a.wake(); });
        let mut polls = 0usize;
        let out = block_on(PollFn(|cx: &mut Context<'_>| {
            polls += 1;
            aw.register_by_ref(cx.waker());
            if flag.load(Acquire) == 1 { Poll::Ready(polls) } else { Poll::Pending }
        }));
        t.join().unwrap();
        out
    }));
    show("no wake ever", outcomes(builder(), || {
        let mut polls = 0usize;
        block_on(PollFn(|_cx: &mut Context<'_>| { polls += 1; if polls > 5 { Poll::Ready(polls) } else { Poll::<usize>::Pending } }))
    }));
    show("wake before register (lost if flag checked before register)", outcomes(builder(), || {
        let flag = Arc::new(AtomicUsize::new(0));
        let aw = Arc::new(AtomicWaker::new());
        let (f, a) = (flag.clone(), aw.clone());
        let t = thread::spawn(move || { f.store(1, Release); a.wake(); });
        let mut polls = 0usize;
        let out = block_on(PollFn(|cx: &mut Context<'_>| {
            polls += 1;
            if flag.load(Acquire) == 1 { return Poll::Ready(polls) }
            aw.register_by_ref(cx.waker());
            Poll::Pending
        }));
        t.join().unwrap();
        out
    }));
}
