use loom::thread;
use loom::sync::atomic::AtomicUsize;
use std::sync::atomic::Ordering::*;
use std::sync::Arc;
fn main() {
    let r = std::panic::catch_unwind(|| {
        loom::model(|| {
            let x = Arc::new(AtomicUsize::new(0));
            let x1 = x.clone();
            let t1 = thread::spawn(move || { x1.store(1, SeqCst); x1.store(2, SeqCst); });
            let t2 = thread::spawn(move || { t1.join().unwrap(); });
            x.load(SeqCst);
            x.load(SeqCst);
            t2.thread().unpark();
            t2.join().unwrap();
        });
    });
    println!("join-unpark result: {:?}", r.map_err(|e| e.downcast_ref::<String>().cloned().or(e.downcast_ref::<&str>().map(|s| s.to_string()))));
}
