use loom::sync::atomic::AtomicUsize;
use loom::sync::{Arc, Mutex, Condvar};
use loom::thread;
use scratch::*;
use std::sync::atomic::Ordering::*;
fn main() {
    // C11: strong_count racing with clone/drop in another thread
    show("count vs clone+drop", outcomes(builder(), || {
        let a = Arc::new(0usize);
        let a2 = a.clone();
        let t = thread::spawn(move || { let b = a2.clone(); let c = Arc::strong_count(&a2); drop(b); drop(a2); c });
        let c0 = Arc::strong_count(&a);
        let c1 = t.join().unwrap();
        (c0, c1)
    }));
    show("try_unwrap race", outcomes(builder(), || {
        let a = Arc::new(7usize);
        let a2 = a.clone();
        let t = thread::spawn(move || { Arc::try_unwrap(a2).ok() });
        let r0 = Arc::try_unwrap(a).ok();
        (r0, t.join().unwrap())
    }));
    show("get_mut race", outcomes(builder(), || {
        let mut a = Arc::new(7usize);
        let a2 = a.clone();
        let t = thread::spawn(move || { drop(a2); });
        let r0 = Arc::get_mut(&mut a).is_some();
        t.join().unwrap();
        r0
    }));
    // inspect masking: two inspects then inc
    show("2 inspects + clone", outcomes(builder(), || {
        let a = Arc::new(0usize);
        let (a2, a3) = (a.clone(), a.clone());
        let t1 = thread::spawn(move || { Arc::strong_count(&a2) });
        let t2 = thread::spawn(move || { let c = Arc::strong_count(&a3); let b = a3.clone(); drop(b); c });
        let r = (t1.join().unwrap(), t2.join().unwrap());
        r
    }));
    // C10: schedule-dependent leak
    show("cas-winner forgets", outcomes(builder(), || {
        let x = std::sync::Arc::new(AtomicUsize::new(0));
        let hs: Vec<_> = (0..2).map(|_| { let x = x.clone(); thread::spawn(move || { let h = Arc::new(1usize); if x.compare_exchange(0, 1, SeqCst, SeqCst).is_ok() { drop(h) } else { std::mem::forget(h) } }) }).collect();
        for h in hs { h.join().unwrap(); }
    }));
    show("leak only if load sees 1", outcomes(builder(), || {
        let x = std::sync::Arc::new(AtomicUsize::new(0));
        let x2 = x.clone();
        let t = thread::spawn(move || { x2.store(1, SeqCst); });
        let h = loom::alloc::Track::new(5usize);
        if x.load(SeqCst) == 1 { std::mem::forget(h) }
        t.join().unwrap();
    }));
    // C08: condvar notify_one with 2 waiters
    show("cv notify_one 2 waiters", outcomes(builder(), || {
        let p = std::sync::Arc::new((Mutex::new(0usize), Condvar::new()));
        let hs: Vec<_> = (0..2).map(|i| { let p = p.clone(); thread::spawn(move || { let mut g = p.0.lock().unwrap(); while *g == 0 { g = p.1.wait(g).unwrap(); } *g -= 1; i }) }).collect();
        { *p.0.lock().unwrap() += 1; p.1.notify_one(); }
        { *p.0.lock().unwrap() += 1; p.1.notify_one(); }
        for h in hs { h.join().unwrap(); }
    }));
    // stale park token + condvar
    show("stale token then cv.wait", outcomes(builder(), || {
        let p = std::sync::Arc::new((Mutex::new(0usize), Condvar::new()));
        let p2 = p.clone();
        let t = thread::spawn(move || { let g = p2.0.lock().unwrap(); let g = p2.1.wait(g).unwrap(); *g });
        t.thread().unpark();
        { *p.0.lock().unwrap() = 1; p.1.notify_one(); }
        t.join().unwrap()
    }));
}
