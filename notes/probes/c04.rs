use loom::thread;
use loom::cell::UnsafeCell;
use std::sync::Arc;
fn res(r: std::thread::Result<()>) -> String { match r { Ok(()) => "ok".into(), Err(e) => e.downcast_ref::<String>().cloned().or(e.downcast_ref::<&str>().map(|s| s.to_string())).unwrap_or_default().lines().next().unwrap_or("").to_string() } }
fn main() {
    // racy: unpark gives no hb to a thread that never parks
    let r = std::panic::catch_unwind(|| loom::model(|| {
        let c = Arc::new(UnsafeCell::new(0usize));
        let c2 = c.clone();
        let t = thread::spawn(move || { c2.with(|p| unsafe { *p }) });
        c.with_mut(|p| unsafe { *p = 1 });
        t.thread().unpark();
        t.join().unwrap();
    }));
    println!("write;unpark | read(no park): {}", res(r));
    // plain race baseline
    let r = std::panic::catch_unwind(|| loom::model(|| {
        let c = Arc::new(UnsafeCell::new(0usize));
        let c2 = c.clone();
        let t = thread::spawn(move || { c2.with(|p| unsafe { *p }) });
        c.with_mut(|p| unsafe { *p = 1 });
        t.join().unwrap();
    }));
    println!("write | read: {}", res(r));
    // correct: write; unpark | park; read
    let r = std::panic::catch_unwind(|| loom::model(|| {
        let c = Arc::new(UnsafeCell::new(0usize));
        let c2 = c.clone();
        let t = thread::spawn(move || { thread::park(); c2.with(|p| unsafe { *p }) });
        c.with_mut(|p| unsafe { *p = 1 });
        t.thread().unpark();
        t.join().unwrap();
    }));
    println!("write;unpark | park;read: {}", res(r));
}
