use loom::sync::atomic::AtomicUsize;
use loom::thread;
use scratch::*;
use std::sync::atomic::Ordering::*;
use std::sync::Arc;
fn main() {
    // C18: await x==1 then read y; writer: y=1 (rlx); x=1 (rel or rlx)
    for (so, lo) in [(Release, Acquire), (Relaxed, Relaxed), (Release, Relaxed)] {
        show(&format!("await MP store={:?} load={:?}", so, lo), outcomes(builder(), move || {
            let x = Arc::new(AtomicUsize::new(0)); let y = Arc::new(AtomicUsize::new(0));
            let (x2, y2) = (x.clone(), y.clone());
            let t = thread::spawn(move || { y2.store(1, Relaxed); x2.store(1, so); });
            while x.load(lo) != 1 { thread::yield_now(); }
            let r = y.load(Relaxed);
            t.join().unwrap();
            r
        }));
    }
    // two awaited stores by two writers, waiter awaits x==1 then reads z (written by other writer)
    show("two writers", outcomes(builder(), move || {
        let x = Arc::new(AtomicUsize::new(0)); let z = Arc::new(AtomicUsize::new(0));
        let x2 = x.clone(); let z2 = z.clone();
        let t1 = thread::spawn(move || { x2.store(1, Release); });
        let t2 = thread::spawn(move || { z2.store(1, Release); });
        while x.load(Acquire) != 1 { thread::yield_now(); }
        let a = z.load(Acquire);
        while z.load(Acquire) != 1 { thread::yield_now(); }
        t1.join().unwrap(); t2.join().unwrap();
        a
    }));
    // spin_loop variant + never true
    let mut b = builder(); b.max_branches = 200;
    show("never true", outcomes(b, move || {
        let x = Arc::new(AtomicUsize::new(0));
        let x2 = x.clone();
        let t1 = thread::spawn(move || { x2.store(2, Release); });
        while x.load(Acquire) != 1 { loom::hint::spin_loop(); }
        t1.join().unwrap();
        0
    }));
    // waiter in spawned thread, two waiters sequentially? two waiters at once on same flag
    show("two waiters", outcomes(builder(), move || {
        let x = Arc::new(AtomicUsize::new(0)); let y = Arc::new(AtomicUsize::new(0));
        let (x2, y2) = (x.clone(), y.clone());
        let (x3, y3) = (x.clone(), y.clone());
        let t1 = thread::spawn(move || { while x2.load(Acquire) != 1 { thread::yield_now(); } y2.load(Relaxed) });
        let t2 = thread::spawn(move || { while x3.load(Relaxed) != 1 { thread::yield_now(); } y3.load(Relaxed) });
        y.store(1, Relaxed); x.store(1, Release);
        (t1.join().unwrap(), t2.join().unwrap())
    }));
}
