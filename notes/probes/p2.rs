use loom::sync::atomic::AtomicUsize;
use loom::sync::Mutex;
use loom::thread;
use scratch::*;
use std::sync::atomic::Ordering::*;
use std::sync::Arc;
fn main() {
    // C15 preemption bound on SB + a 3-thread program
    for n in [None, Some(0), Some(1), Some(2), Some(3), Some(6)] {
        let mut b = builder(); b.preemption_bound = n;
        show(&format!("SB bound={:?}", n), outcomes(b, move || {
            let x = Arc::new(AtomicUsize::new(0)); let y = Arc::new(AtomicUsize::new(0));
            let (x2, y2) = (x.clone(), y.clone());
            let t = thread::spawn(move || { x2.store(1, SeqCst); y2.load(SeqCst) });
            y.store(1, SeqCst);
            let b = x.load(SeqCst);
            (t.join().unwrap(), b)
        }));
    }
    for n in [None, Some(0), Some(1), Some(2), Some(3), Some(6)] {
        let mut b = builder(); b.preemption_bound = n;
        show(&format!("mutex3 bound={:?}", n), outcomes(b, move || {
            let m = Arc::new(Mutex::new(Vec::new()));
            let hs: Vec<_> = (1..3).map(|i| { let m = m.clone(); thread::spawn(move || { m.lock().unwrap().push(i); m.lock().unwrap().push(i+10); }) }).collect();
            m.lock().unwrap().push(0);
            for h in hs { h.join().unwrap(); }
            let v = m.lock().unwrap().clone(); v
        }));
    }
}
