use loom::sync::atomic::AtomicUsize;
use loom::thread;
use std::collections::BTreeSet;
use std::sync::atomic::Ordering::*;
use std::sync::{Arc, Mutex};

fn main() {
    let values = Arc::new(Mutex::new(BTreeSet::new()));
    let v2 = values.clone();
    let iters = Arc::new(std::sync::atomic::AtomicUsize::new(0));
    let it2 = iters.clone();
    loom::model(move || {
        it2.fetch_add(1, SeqCst);
        let x = Arc::new(AtomicUsize::new(0));
        let t = {
            let x = x.clone();
            thread::spawn(move || {
                let r1 = x.load(SeqCst);
                x.store(2, SeqCst);
                r1
            })
        };
        x.store(1, SeqCst);
        let r0 = x.load(SeqCst);
        let r1 = t.join().unwrap();
        v2.lock().unwrap().insert((r0, r1));
    });
    println!("iters={} {:?}", iters.load(SeqCst), values.lock().unwrap());
}
