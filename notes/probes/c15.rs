use loom::sync::atomic::AtomicUsize;
use loom::sync::Mutex;
use loom::thread;
use loom::verif::{Branch, Phase, ThreadStatus, set_iteration_hook};
use std::cell::RefCell;
use std::rc::Rc;
use std::sync::atomic::Ordering::*;
use std::sync::Arc;
fn structural_preemptions(path: &[Branch]) -> usize {
    let mut prev_active: Option<usize> = None;
    let mut n = 0;
    for b in path {
        if let Branch::Schedule { threads, .. } = b {
            let act = threads.iter().position(|t| *t == ThreadStatus::Active);
            if let (Some(p), Some(a)) = (prev_active, act) {
                if p != a && matches!(threads[p], ThreadStatus::Skip | ThreadStatus::Pending | ThreadStatus::Visited) { n += 1; }
            }
            prev_active = act;
        }
    }
    n
}
fn check(name: &str, pb: Option<usize>, f: impl Fn() + Send + Sync + 'static) {
    let st = Rc::new(RefCell::new((0usize, 0usize, 0usize))); // iters, max structural, max loom-reported
    let s2 = st.clone();
    set_iteration_hook(Some(Box::new(move |phase, _i, path| {
        if phase != Phase::IterationEnd { return; }
        let mut s = s2.borrow_mut();
        s.0 += 1;
        s.1 = s.1.max(structural_preemptions(path));
        let last = path.iter().rev().find_map(|b| if let Branch::Schedule { preemptions, .. } = b { Some(*preemptions as usize) } else { None }).unwrap_or(0);
        s.2 = s.2.max(last);
    })));
    let mut b = loom::model::Builder::new();
    b.preemption_bound = pb; b.checkpoint_interval = 1000; b.max_permutations = Some(200_000);
    b.check(f);
    set_iteration_hook(None);
    let s = st.borrow();
    println!("{} pb={:?}: iters={} max_structural_preemptions={} max_loom_counter={}", name, pb, s.0, s.1, s.2);
}
fn main() {
    for pb in [Some(0), Some(1), Some(2), Some(3), None] {
        check("sb", pb, || { let x = Arc::new(AtomicUsize::new(0)); let y = Arc::new(AtomicUsize::new(0)); let (x2, y2) = (x.clone(), y.clone()); let t = thread::spawn(move || { x2.store(1, SeqCst); y2.load(SeqCst) }); y.store(1, SeqCst); x.load(SeqCst); t.join().unwrap(); });
        check("mutex3", pb, || { let m = Arc::new(Mutex::new(0)); let hs: Vec<_> = (0..2).map(|_| { let m = m.clone(); thread::spawn(move || { *m.lock().unwrap() += 1; *m.lock().unwrap() += 1; }) }).collect(); *m.lock().unwrap() += 1; for h in hs { h.join().unwrap(); } });
        check("relaxed 3thr", pb, || { let x = Arc::new(AtomicUsize::new(0)); let y = Arc::new(AtomicUsize::new(0)); let hs: Vec<_> = (0..3).map(|i| { let (x, y) = (x.clone(), y.clone()); thread::spawn(move || { if i % 2 == 0 { x.store(i + 1, Relaxed); y.load(Relaxed) } else { y.store(i + 1, Relaxed); x.load(Relaxed) } }) }).collect(); for h in hs { h.join().unwrap(); } });
    }
}
