use loom::sync::atomic::AtomicUsize;
use loom::thread;
use std::sync::atomic::Ordering::*;
use std::sync::Arc;
use std::time::Instant;

fn count(name: &str, f: impl Fn() + Send + Sync + 'static) {
    let iters = Arc::new(std::sync::atomic::AtomicUsize::new(0));
    let it2 = iters.clone();
    let start = Instant::now();
    let mut b = loom::model::Builder::new();
    b.max_branches = 10000;
    b.checkpoint_interval = 1000;
    b.max_permutations = Some(300_000);
    b.check(move || { it2.fetch_add(1, SeqCst); f() });
    println!("{} iters={} time={:?}", name, iters.load(SeqCst), start.elapsed());
}
fn prog(nspawn: usize, join: bool, main_works: bool, ord: std::sync::atomic::Ordering) -> impl Fn() + Send + Sync + 'static {
    move || {
        let x = Arc::new(AtomicUsize::new(0)); let y = Arc::new(AtomicUsize::new(0));
        let hs: Vec<_> = (0..nspawn).map(|i| { let (x,y) = (x.clone(), y.clone()); thread::spawn(move || { if i%2==0 { x.store(i+1, ord); y.load(ord) } else { y.store(i+1, ord); x.load(ord) } }) }).collect();
        if main_works { let i = nspawn; if i%2==0 { x.store(i+1, ord); y.load(ord); } else { y.store(i+1, ord); x.load(ord); } }
        if join { for h in hs { h.join().unwrap(); } }
    }
}
fn main() {
    for &ord in &[SeqCst, Relaxed] {
        count(&format!("{:?} 2 spawned, join, main idle", ord), prog(2, true, false, ord));
        count(&format!("{:?} 2 spawned, nojoin, main idle", ord), prog(2, false, false, ord));
        count(&format!("{:?} 1 spawned + main works, join", ord), prog(1, true, true, ord));
        count(&format!("{:?} 2 spawned + main works, join", ord), prog(2, true, true, ord));
        count(&format!("{:?} 2 spawned + main works, nojoin", ord), prog(2, false, true, ord));
        count(&format!("{:?} 3 spawned, nojoin", ord), prog(3, false, false, ord));
        count(&format!("{:?} 3 spawned, join", ord), prog(3, true, false, ord));
    }
}
