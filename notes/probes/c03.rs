use loom::sync::atomic::AtomicUsize;
use loom::thread;
use std::collections::BTreeSet;
use std::sync::atomic::Ordering::*;
use std::sync::{Arc, Mutex};

fn main() {
    let values = Arc::new(Mutex::new(BTreeSet::new()));
    let v2 = values.clone();
    loom::model(move || {
        let y = Arc::new(AtomicUsize::new(0));
        let t0 = { let y = y.clone(); thread::spawn(move || { y.store(1, Relaxed); y.store(2, Relaxed); }) };
        let t1 = { let y = y.clone(); thread::spawn(move || { y.store(3, Relaxed); y.load(Relaxed) }) };
        t0.join().unwrap();
        let r = t1.join().unwrap();
        let f = y.load(Relaxed);
        v2.lock().unwrap().insert((r, f));
    });
    println!("coh: {:?}", values.lock().unwrap());
    let values = Arc::new(Mutex::new(BTreeSet::new()));
    let v2 = values.clone();
    loom::model(move || {
        let x = Arc::new(AtomicUsize::new(0));
        let t0 = { let x = x.clone(); thread::spawn(move || { x.store(1, Relaxed); }) };
        let t1 = { let x = x.clone(); thread::spawn(move || { x.swap(2, Relaxed) }) };
        t0.join().unwrap();
        let r = t1.join().unwrap();
        let f = x.load(Relaxed);
        v2.lock().unwrap().insert((r, f));
    });
    println!("rmw: {:?}", values.lock().unwrap());
}
