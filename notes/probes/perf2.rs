use loom::sync::atomic::AtomicUsize;
use loom::sync::{Mutex, Condvar, RwLock};
use loom::thread;
use std::sync::atomic::Ordering::*;
use std::sync::Arc;
use std::time::Instant;

fn count(name: &str, f: impl Fn() + Send + Sync + 'static) {
    let iters = Arc::new(std::sync::atomic::AtomicUsize::new(0));
    let it2 = iters.clone();
    let start = Instant::now();
    let mut b = loom::model::Builder::new();
    b.max_branches = 10000;
    b.checkpoint_interval = 1000;
    b.max_permutations = Some(300_000);
    b.check(move || { it2.fetch_add(1, SeqCst); f() });
    println!("{} iters={} time={:?}", name, iters.load(SeqCst), start.elapsed());
}
fn main() {
    count("mutex 3thr x (lock,unlock)x2", || {
        let m = Arc::new(Mutex::new(0));
        let hs: Vec<_> = (0..3).map(|_| { let m = m.clone(); thread::spawn(move || { for _ in 0..2 { *m.lock().unwrap() += 1; } }) }).collect();
        for h in hs { h.join().unwrap(); }
    });
    count("2 mutex 2thr nested", || {
        let a = Arc::new(Mutex::new(0)); let b = Arc::new(Mutex::new(0));
        let (a2,b2)=(a.clone(),b.clone());
        let h = thread::spawn(move || { let _x = a2.lock().unwrap(); let _y = b2.lock().unwrap(); });
        { let _x = a.lock().unwrap(); let _y = b.lock().unwrap(); }
        h.join().unwrap();
    });
    count("rwlock 3thr", || {
        let m = Arc::new(RwLock::new(0));
        let hs: Vec<_> = (0..3).map(|i| { let m = m.clone(); thread::spawn(move || { if i == 0 { *m.write().unwrap() += 1; } else { let _ = *m.read().unwrap(); let _ = m.try_write().is_ok(); } }) }).collect();
        for h in hs { h.join().unwrap(); }
    });
    count("condvar 3thr", || {
        let m = Arc::new((Mutex::new(0), Condvar::new()));
        let hs: Vec<_> = (0..2).map(|_| { let m = m.clone(); thread::spawn(move || { let mut g = m.0.lock().unwrap(); while *g == 0 { g = m.1.wait(g).unwrap(); } }) }).collect();
        { *m.0.lock().unwrap() = 1; m.1.notify_all(); }
        for h in hs { h.join().unwrap(); }
    });
    count("atomics seqcst 3thr x 2ops, 2 locs", || {
        let x = Arc::new(AtomicUsize::new(0)); let y = Arc::new(AtomicUsize::new(0));
        let hs: Vec<_> = (0..3).map(|i| { let (x,y) = (x.clone(), y.clone()); thread::spawn(move || { if i%2==0 { x.store(i+1, SeqCst); y.load(SeqCst) } else { y.store(i+1, SeqCst); x.load(SeqCst) } }) }).collect();
        for h in hs { h.join().unwrap(); }
    });
    count("atomics 2thr+main x 2ops, 1 loc rmw", || {
        let x = Arc::new(AtomicUsize::new(0));
        let hs: Vec<_> = (0..2).map(|i| { let x = x.clone(); thread::spawn(move || { x.fetch_add(1, Relaxed); x.load(Relaxed) + i }) }).collect();
        x.store(7, Relaxed);
        for h in hs { h.join().unwrap(); }
    });
    count("IRIW 4 thr", || {
        let x = Arc::new(AtomicUsize::new(0)); let y = Arc::new(AtomicUsize::new(0));
        let (x1,y1,x2,y2,x3,y3)=(x.clone(),y.clone(),x.clone(),y.clone(),x.clone(),y.clone());
        let a = thread::spawn(move || x1.store(1, Relaxed));
        let b = thread::spawn(move || y1.store(1, Relaxed));
        let c = thread::spawn(move || (x2.load(Relaxed), y2.load(Relaxed)));
        let d = thread::spawn(move || (y3.load(Relaxed), x3.load(Relaxed)));
        a.join().unwrap(); b.join().unwrap(); c.join().unwrap(); d.join().unwrap();
    });
}
