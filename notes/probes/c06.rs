use loom::thread;
use loom::sync::Arc;
fn main() {
    let r = std::panic::catch_unwind(|| {
        loom::model(|| {
            let a = Arc::new(1);
            let a2 = a.clone();
            thread::spawn(move || { let _ = *a2; });
            assert!(false, "user assertion");
        });
    });
    println!("result: {:?}", r.map_err(|e| e.downcast_ref::<String>().cloned().or(e.downcast_ref::<&str>().map(|s| s.to_string()))));
}
