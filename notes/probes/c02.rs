use loom::sync::atomic::{AtomicUsize, fence};
use loom::thread;
use std::collections::BTreeSet;
use std::sync::atomic::Ordering::*;
use std::sync::{Arc, Mutex};

fn main() {
    let values = Arc::new(Mutex::new(BTreeSet::new()));
    let v2 = values.clone();
    loom::model(move || {
        let x = Arc::new(AtomicUsize::new(0));
        let y = Arc::new(AtomicUsize::new(0));
        let z = Arc::new(AtomicUsize::new(0));
        let t1 = {
            let (x, y) = (x.clone(), y.clone());
            thread::spawn(move || { y.store(1, Relaxed); x.store(1, Release); })
        };
        let t2 = {
            let (x, z) = (x.clone(), z.clone());
            thread::spawn(move || { let a = x.load(Relaxed); z.store(1, Release); a })
        };
        let t3 = {
            let (y, z) = (y.clone(), z.clone());
            thread::spawn(move || { let b = z.load(Acquire); fence(Acquire); let c = y.load(Relaxed); (b, c) })
        };
        t1.join().unwrap();
        let a = t2.join().unwrap();
        let (b, c) = t3.join().unwrap();
        v2.lock().unwrap().insert((a, b, c));
    });
    println!("{:?}", values.lock().unwrap());
}
