// C06 fault-context probe: each case in a child process (fork via re-exec) so aborts are visible
use loom::cell::UnsafeCell;
use loom::sync::atomic::AtomicUsize;
use loom::sync::{Arc, Mutex, RwLock};
use loom::thread;
use std::sync::atomic::Ordering::*;

struct PanicOnDrop;
impl Drop for PanicOnDrop { fn drop(&mut self) { if !std::thread::panicking() { panic!("drop boom"); } } }
loom::thread_local! { static TL: PanicOnDrop = PanicOnDrop; }
loom::lazy_static! { static ref LS: PanicOnDrop = PanicOnDrop; }

fn case(n: usize) {
    match n {
        0 => loom::model(|| { let m = Arc::new(Mutex::new(0)); let m2 = m.clone(); let t = thread::spawn(move || { let _g = m2.lock().unwrap(); panic!("boom in spawned holding mutex"); }); let _ = m.lock().unwrap(); let _ = t.join(); }),
        1 => loom::model(|| { let m = Arc::new(RwLock::new(0)); let m2 = m.clone(); let t = thread::spawn(move || { let _g = m2.write().unwrap(); }); let _g = m.read().unwrap(); panic!("boom in main holding read guard"); #[allow(unreachable_code)] { t.join().unwrap(); } }),
        2 => loom::model(|| { let c = Arc::new(UnsafeCell::new(0)); let x = Arc::new(AtomicUsize::new(0)); let (c2, x2) = (c.clone(), x.clone()); thread::spawn(move || { x2.store(1, SeqCst); let _ = c2; }); c.with_mut(|_| { if x.load(SeqCst) == 1 { panic!("boom inside with_mut") } }); }),
        3 => loom::model(|| { let mut a = AtomicUsize::new(0); let x = Arc::new(AtomicUsize::new(0)); let x2 = x.clone(); thread::spawn(move || { x2.store(1, SeqCst); }); a.with_mut(|_| { if x.load(SeqCst) == 1 { panic!("boom inside atomic with_mut") } }); }),
        4 => loom::model(|| { let t = thread::spawn(|| { TL.with(|_| ()); }); t.join().unwrap(); }),
        5 => loom::model(|| { let x = Arc::new(AtomicUsize::new(0)); let x2 = x.clone(); thread::spawn(move || { x2.store(1, SeqCst); }); let _ = &*LS; x.load(SeqCst); }),
        6 => loom::model(|| { let a = Arc::new(PanicOnDrop); let a2 = a.clone(); let t = thread::spawn(move || { drop(a2); }); drop(a); t.join().unwrap(); }),
        7 => loom::model(|| { let x = Arc::new(AtomicUsize::new(0)); let x2 = x.clone(); let t = thread::spawn(move || { x2.store(1, SeqCst); x2.store(2, SeqCst); }); let v = x.load(SeqCst); t.join().unwrap(); if v == 1 { panic!("boom only in a middle iteration") } }),
        8 => loom::model(|| { let x = Arc::new(AtomicUsize::new(0)); let x2 = x.clone(); let m = Arc::new(Mutex::new(0)); let m2 = m.clone(); let t = thread::spawn(move || { let _g = m2.lock().unwrap(); x2.store(1, SeqCst); }); let t2 = thread::spawn(move || { let _g = m.lock().unwrap(); if x.load(SeqCst) == 1 { panic!("boom in thread 2 while thread 1 suspended") } }); let _ = t.join(); let _ = t2.join(); }),
        _ => {}
    }
}
fn main() {
    let args: Vec<String> = std::env::args().collect();
    if args.len() > 1 {
        let n: usize = args[1].parse().unwrap();
        let r = std::panic::catch_unwind(|| case(n));
        println!("case {} -> {}", n, match r { Ok(()) => "Ok".to_string(), Err(e) => format!("Err({})", scratch::msg(e)) });
        // second model in same process must be clean
        let r2 = std::panic::catch_unwind(|| loom::model(|| { let x = Arc::new(AtomicUsize::new(0)); let x2 = x.clone(); let t = thread::spawn(move || x2.store(1, SeqCst)); x.load(SeqCst); t.join().unwrap(); assert_eq!(format!("{:?}", thread::current().id()), "ThreadId(0)"); }));
        println!("   afterwards: {}", if r2.is_ok() { "clean" } else { "DIRTY" });
        return;
    }
    for n in 0..9 {
        let out = std::process::Command::new(&args[0]).arg(n.to_string()).env("RUST_BACKTRACE", "0").output().unwrap();
        let so = String::from_utf8_lossy(&out.stdout);
        println!("[{}] status={:?} {}", n, out.status.code(), so.trim().replace('\n', " | "));
        if out.status.code().is_none() { let se = String::from_utf8_lossy(&out.stderr); println!("      stderr tail: {}", se.lines().rev().take(3).collect::<Vec<_>>().join(" <- ")); }
    }
}
