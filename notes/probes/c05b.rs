// genuine deadlock with loom Arc
use loom::thread;
use loom::sync::{Arc, Mutex};
fn main() {
    let r = std::panic::catch_unwind(|| {
        loom::model(|| {
            let a = Arc::new(Mutex::new(1));
            let b = Arc::new(Mutex::new(2));
            let (a2, b2) = (a.clone(), b.clone());
            let th1 = thread::spawn(move || { let _x = a2.lock().unwrap(); let _y = b2.lock().unwrap(); });
            let th2 = thread::spawn(move || { let _y = b.lock().unwrap(); let _x = a.lock().unwrap(); });
            th1.join().unwrap();
            th2.join().unwrap();
        });
    });
    println!("arc deadlock result: {:?}", r.map_err(|e| e.downcast_ref::<String>().cloned().or(e.downcast_ref::<&str>().map(|s| s.to_string()))));
}
