use loom::thread;
use loom::sync::mpsc::channel;
use std::collections::BTreeSet;
use std::sync::{Arc, Mutex};
fn main() {
    let values = Arc::new(Mutex::new(BTreeSet::new()));
    let v2 = values.clone();
    loom::model(move || {
        let (tx, rx) = channel::<u32>();
        let t = thread::spawn(move || { tx.send(5).unwrap(); });
        let r = rx.try_recv().ok();
        t.join().unwrap();
        let r2 = rx.try_recv().ok();
        v2.lock().unwrap().insert((r, r2));
    });
    println!("{:?}", values.lock().unwrap());
}
