use loom::sync::atomic::AtomicUsize;
use loom::thread;
use std::sync::atomic::Ordering::*;
use std::sync::{Arc, Mutex};

fn run(file: Option<&str>, interval: usize, maxp: Option<usize>, panic_at: Option<usize>) -> (Vec<(usize,usize)>, bool) {
    let log = Arc::new(Mutex::new(Vec::new()));
    let l2 = log.clone();
    let mut b = loom::model::Builder::new();
    b.checkpoint_interval = interval;
    b.max_permutations = maxp;
    if let Some(f) = file { b.checkpoint_file(f); }
    let n = Arc::new(std::sync::atomic::AtomicUsize::new(0));
    let r = std::panic::catch_unwind(std::panic::AssertUnwindSafe(|| b.check(move || {
        let k = n.fetch_add(1, SeqCst) + 1;
        let x = Arc::new(AtomicUsize::new(0));
        let x2 = x.clone();
        let t = thread::spawn(move || { x2.store(1, Relaxed); x2.load(Relaxed) });
        x.store(2, Relaxed);
        let a = x.load(Relaxed);
        let b = t.join().unwrap();
        l2.lock().unwrap().push((a, b));
        if Some(k) == panic_at { panic!("boom"); }
    })));
    let v = log.lock().unwrap().clone();
    (v, r.is_err())
}
fn main() {
    let _ = std::fs::remove_file("/tmp/scratch/ck.json");
    let (full, _) = run(None, 20000, None, None);
    println!("full  N={} {:?}", full.len(), full);
    for k in [1usize, 2, 3, 5] {
        let _ = std::fs::remove_file("/tmp/scratch/ck.json");
        let (a, _) = run(Some("/tmp/scratch/ck.json"), 1, Some(k), None);
        let (b, _) = run(Some("/tmp/scratch/ck.json"), 1, None, None);
        let mut cat = a.clone(); cat.extend(b.clone());
        println!("k={} first={} second={} concat_eq_full={}", k, a.len(), b.len(), cat == full);
    }
    // crash
    let _ = std::fs::remove_file("/tmp/scratch/ck.json");
    let (a, p) = run(Some("/tmp/scratch/ck.json"), 1, None, Some(4));
    println!("crash run: {} iters panicked={} last={:?}", a.len(), p, a.last());
    let (b, p2) = run(Some("/tmp/scratch/ck.json"), 1, None, Some(1));
    println!("replay: {} iters panicked={} first={:?}", b.len(), p2, b.first());
    println!("{}", std::fs::read_to_string("/tmp/scratch/ck.json").unwrap());
}
