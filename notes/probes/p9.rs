use loom::sync::atomic::AtomicUsize;
use loom::sync::Arc;
use loom::sync::mpsc::channel;
use loom::thread;
use scratch::*;
use std::sync::atomic::Ordering::*;
use std::sync::atomic::AtomicUsize as StdAtomic;

static DROPS: StdAtomic = StdAtomic::new(0);
static ERRS: StdAtomic = StdAtomic::new(0);
struct A(u8); struct B(u8);
impl Drop for A { fn drop(&mut self) { DROPS.fetch_add(1, SeqCst); if TLB.try_with(|_| ()).is_err() { ERRS.fetch_add(1, SeqCst); } } }
impl Drop for B { fn drop(&mut self) { DROPS.fetch_add(100, SeqCst); if TLA.try_with(|_| ()).is_err() { ERRS.fetch_add(100, SeqCst); } } }
loom::thread_local! { static TLA: A = A(1); static TLB: B = B(2); }

fn main() {
    // C10 release paths: none of these may report a leak
    show("try_unwrap release", outcomes(builder(), || { let a = Arc::new(5); let b = a.clone(); let t = thread::spawn(move || drop(b)); t.join().unwrap(); Arc::try_unwrap(a).unwrap() }));
    show("into_raw/from_raw across threads", outcomes(builder(), || { let a = Arc::new(5usize); let p = Arc::into_raw(a) as usize; let t = thread::spawn(move || { let a = unsafe { Arc::from_raw(p as *const usize) }; *a }); t.join().unwrap() }));
    show("inc/dec strong", outcomes(builder(), || { let a = Arc::new(5usize); let p = Arc::as_ptr(&a); unsafe { Arc::increment_strong_count(p); } let c = Arc::strong_count(&a); unsafe { Arc::decrement_strong_count(p); } (c, Arc::strong_count(&a)) }));
    show("into_raw leak", outcomes(builder(), || { let a = Arc::new(5usize); let _ = Arc::into_raw(a); }));
    show("track moved + dropped in thread", outcomes(builder(), || { let t = loom::alloc::Track::new(1); let h = thread::spawn(move || drop(t)); h.join().unwrap(); }));
    show("alloc/dealloc", outcomes(builder(), || unsafe { let l = loom::alloc::Layout::new::<u64>(); let p = loom::alloc::alloc(l); let pp = p as usize; let h = thread::spawn(move || { loom::alloc::dealloc(pp as *mut u8, l) }); h.join().unwrap(); }));
    show("rx drop drains", outcomes(builder(), || { let (tx, rx) = channel(); let t = thread::spawn(move || { tx.send(1).unwrap(); tx.send(2).unwrap(); }); let a = rx.recv().unwrap(); t.join().unwrap(); drop(rx); a }));
    show("rx forgotten with msgs", outcomes(builder(), || { let (tx, rx) = channel(); tx.send(1).unwrap(); std::mem::forget(rx); }));
    // C17 TLS destructor try_with
    DROPS.store(0, SeqCst); ERRS.store(0, SeqCst);
    show("tls dtor try_with", outcomes(builder(), || { let t = thread::spawn(|| { TLA.with(|a| a.0); TLB.with(|b| b.0); }); t.join().unwrap(); (DROPS.swap(0, SeqCst), ERRS.swap(0, SeqCst)) }));
    // C16: P alone vs after Q: compare sequences
    let seq = |pre: bool| {
        if pre { let _ = outcomes(builder(), || { let x = std::sync::Arc::new(AtomicUsize::new(0)); let x2 = x.clone(); let m = std::sync::Arc::new(loom::sync::Mutex::new(0)); let m2 = m.clone(); thread::spawn(move || { let _g = m2.lock().unwrap(); x2.store(9, SeqCst); }); let _g = m.lock().unwrap(); x.load(SeqCst) }); }
        let log = std::sync::Arc::new(std::sync::Mutex::new(Vec::new())); let l2 = log.clone();
        loom::model(move || { let x = std::sync::Arc::new(AtomicUsize::new(0)); let x2 = x.clone(); let t = thread::spawn(move || { x2.store(1, Relaxed); x2.load(Relaxed) }); x.store(2, Relaxed); let a = x.load(Relaxed); let b = t.join().unwrap(); l2.lock().unwrap().push((a, b, format!("{:?}", thread::current().id()))); });
        let v = log.lock().unwrap().clone(); v
    };
    let a = seq(false); let b = seq(true);
    println!("C16 sequences equal: {} (n={})", a == b, a.len());
}
