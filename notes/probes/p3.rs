use loom::sync::atomic::AtomicUsize;
use loom::thread;
use scratch::*;
use std::sync::atomic::Ordering::*;
use std::sync::Arc;
fn phase(tag: usize) -> (usize, usize) {
    let x = Arc::new(AtomicUsize::new(0)); let y = Arc::new(AtomicUsize::new(0));
    let (x2, y2) = (x.clone(), y.clone());
    let t = thread::spawn(move || { x2.store(1 + tag, SeqCst); y2.load(SeqCst) });
    y.store(1 + tag, SeqCst);
    let b = x.load(SeqCst);
    (t.join().unwrap(), b)
}
fn main() {
    show("p1 only", outcomes(builder(), || phase(0)));
    show("p1;p2 full", outcomes(builder(), || (phase(0), phase(10))));
    show("p1;[stop p2 explore]", outcomes(builder(), || { let a = phase(0); loom::stop_exploring(); let b = phase(10); loom::explore(); (a, b) }));
    show("[stop p1 explore];p2", outcomes(builder(), || { loom::stop_exploring(); let a = phase(0); loom::explore(); let b = phase(10); (a, b) }));
    show("p1;skip;p2", outcomes(builder(), || { let a = phase(0); loom::skip_branch(); let b = phase(10); (a, b) }));
    show("stop whole", outcomes(builder(), || { loom::stop_exploring(); let a = phase(0); a }));
    let mut b = builder(); b.expect_explicit_explore = true;
    show("explicit explore: p1;[explore p2]", outcomes(b, || { let a = phase(0); loom::explore(); let b = phase(10); (a, b) }));
    // max_branches exactness
    for mb in [5usize, 8, 9, 10, 11, 12, 13, 14, 20] {
        let mut b = builder(); b.max_branches = mb;
        let r = outcomes(b, || phase(0));
        println!("max_branches={} iters={} panic={:?}", mb, r.1, r.2.map(|s| s.chars().take(40).collect::<String>()));
    }
    // max_threads
    for mt in [2usize, 3, 4, 5] {
        let mut b = builder(); b.max_threads = mt;
        let r = outcomes(b, || { let hs: Vec<_> = (0..2).map(|_| thread::spawn(|| ())).collect(); for h in hs { h.join().unwrap(); } });
        println!("max_threads={} iters={} panic={:?}", mt, r.1, r.2);
    }
    // max_permutations
    for (mp, ci) in [(1usize, 1usize), (3, 1), (3, 2), (4, 3), (7, 5), (100, 1)] {
        let mut b = builder(); b.max_permutations = Some(mp); b.checkpoint_interval = ci;
        let r = outcomes(b, || phase(0));
        println!("max_permutations={} interval={} iters={} panic={:?}", mp, ci, r.1, r.2);
    }
    let mut b = builder(); b.max_permutations = None; b.max_duration = Some(std::time::Duration::ZERO); b.checkpoint_interval = 4;
    let r = outcomes(b, || phase(0));
    println!("max_duration=0 interval=4 iters={} panic={:?}", r.1, r.2);
}
