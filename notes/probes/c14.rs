use loom::sync::atomic::AtomicUsize;
use loom::sync::{Mutex, Notify};
use loom::thread;
use loom::verif::{Branch, Phase, ThreadStatus, set_iteration_hook};
use std::cell::RefCell;
use std::collections::HashSet;
use std::rc::Rc;
use std::sync::atomic::Ordering::*;
use std::sync::Arc;

/// decision key of a branch: (kind, choice)
fn key(b: &Branch) -> (u8, u8) {
    match b {
        Branch::Schedule { threads, .. } => (0, threads.iter().position(|t| *t == ThreadStatus::Active).map(|p| p as u8).unwrap_or(255)),
        Branch::Load { values, pos, .. } => (1, values[*pos as usize]),
        Branch::Spurious { spur, .. } => (2, *spur as u8),
    }
}
/// reference step: returns predicted prefix of next iteration (as decision keys), or None when exhausted
fn ref_step(path: &[Branch]) -> Option<Vec<(u8, u8)>> {
    for d in (0..path.len()).rev() {
        let next = match &path[d] {
            Branch::Schedule { threads, exploring, .. } => if !*exploring { None } else { threads.iter().position(|t| *t == ThreadStatus::Pending).map(|p| (0u8, p as u8)) },
            Branch::Load { values, pos, exploring } => if !*exploring || (*pos as usize + 1) >= values.len() { None } else { Some((1u8, values[*pos as usize + 1])) },
            Branch::Spurious { spur, exploring } => if !*exploring || *spur { None } else { Some((2u8, 1u8)) },
        };
        if let Some(k) = next {
            let mut v: Vec<_> = path[..d].iter().map(key).collect();
            v.push(k);
            return Some(v);
        }
    }
    None
}
fn check(name: &str, pb: Option<usize>, f: impl Fn() + Send + Sync + 'static) {
    #[derive(Default)]
    struct St { seen: HashSet<Vec<(u8, u8)>>, iters: usize, dup: usize, pred: Option<Option<Vec<(u8, u8)>>>, mispred: usize, order_bad: usize, last: Option<Vec<(u8,u8)>>, prefix_bad: usize, cur_prefix: Option<Vec<(u8,u8)>> }
    let st = Rc::new(RefCell::new(St::default()));
    let s2 = st.clone();
    set_iteration_hook(Some(Box::new(move |phase, _i, path| {
        let mut s = s2.borrow_mut();
        let keys: Vec<_> = path.iter().map(key).collect();
        match phase {
            Phase::IterationEnd => {
                s.iters += 1;
                if !s.seen.insert(keys.clone()) { s.dup += 1; }
                // executed path must extend the prepared prefix
                if let Some(p) = s.cur_prefix.take() { if keys.len() < p.len() || keys[..p.len()] != p[..] { s.prefix_bad += 1; } }
                // depth-first order: first differing position must move to a not-yet-taken alternative (checked via prediction)
                s.pred = Some(ref_step(path));
                s.last = Some(keys);
            }
            Phase::NextPrepared => {
                match s.pred.take() { Some(Some(p)) => if p != keys { s.mispred += 1; }, Some(None) => s.mispred += 1, None => {} }
                s.cur_prefix = Some(keys);
            }
        }
    })));
    let mut b = loom::model::Builder::new();
    b.preemption_bound = pb; b.checkpoint_interval = 1000; b.max_permutations = Some(200_000);
    b.check(f);
    set_iteration_hook(None);
    let s = st.borrow();
    // after the last iteration the reference must say "exhausted"
    let exhausted_ok = matches!(s.pred, Some(None));
    println!("{} pb={:?}: iters={} distinct={} dup={} mispredicted={} prefix_bad={} exhausted_ok={}", name, pb, s.iters, s.seen.len(), s.dup, s.mispred, s.prefix_bad, exhausted_ok);
}
fn main() {
    for pb in [None, Some(1), Some(2)] {
        check("c01-example", pb, || { let x = Arc::new(AtomicUsize::new(0)); let x2 = x.clone(); let t = thread::spawn(move || { let r = x2.load(SeqCst); x2.store(2, SeqCst); r }); x.store(1, SeqCst); x.load(SeqCst); t.join().unwrap(); });
        check("mutex3", pb, || { let m = Arc::new(Mutex::new(0)); let hs: Vec<_> = (0..2).map(|_| { let m = m.clone(); thread::spawn(move || { *m.lock().unwrap() += 1; *m.lock().unwrap() += 1; }) }).collect(); *m.lock().unwrap() += 1; for h in hs { h.join().unwrap(); } });
        check("notify-spurious", pb, || { let n = Arc::new(Notify::new()); let x = Arc::new(AtomicUsize::new(0)); let (n2, x2) = (n.clone(), x.clone()); let t = thread::spawn(move || { x2.store(1, Relaxed); n2.notify(); x2.load(Relaxed) }); x.store(2, Relaxed); n.wait(); x.load(Relaxed); t.join().unwrap(); });
        check("relaxed 3thr", pb, || { let x = Arc::new(AtomicUsize::new(0)); let y = Arc::new(AtomicUsize::new(0)); let hs: Vec<_> = (0..3).map(|i| { let (x, y) = (x.clone(), y.clone()); thread::spawn(move || { if i % 2 == 0 { x.store(i + 1, Relaxed); y.load(Relaxed) } else { y.store(i + 1, Relaxed); x.load(Relaxed) } }) }).collect(); for h in hs { h.join().unwrap(); } });
    }
}
