// usage: syncrun <programs.json> [cap]
use loom::sync::atomic::AtomicUsize;
use loom::sync::{Mutex, MutexGuard, RwLock, RwLockReadGuard, RwLockWriteGuard, Condvar};
use loom::sync::mpsc::{channel, Sender, Receiver};
use loom::thread;
use serde_json::Value;
use std::collections::BTreeSet;
use std::sync::atomic::Ordering::*;
use std::sync::{Arc, Mutex as StdMutex};

struct Objs { ms: Vec<&'static Mutex<usize>>, rw: &'static RwLock<usize>, cv: &'static Condvar, ats: Vec<&'static AtomicUsize>, tx: StdMutex<Option<Sender<usize>>>, rx: StdMutex<Option<Receiver<usize>>> }
fn leak<T>(t: T) -> &'static T { Box::leak(Box::new(t)) }

fn exec(ops: &[Value], o: &'static Objs, tx: Option<Sender<usize>>, rx: Option<Receiver<usize>>, threads: &'static StdMutex<Vec<Option<thread::Thread>>>, out: &mut Vec<i64>) {
    exec_ref(ops, o, tx, rx.as_ref(), threads, out)
}
fn exec_ref(ops: &[Value], o: &'static Objs, tx: Option<Sender<usize>>, rx: Option<&Receiver<usize>>, threads: &'static StdMutex<Vec<Option<thread::Thread>>>, out: &mut Vec<i64>) {
    let mut g: Vec<Option<MutexGuard<'static, usize>>> = vec![None, None];
    let mut rg: Option<RwLockReadGuard<'static, usize>> = None;
    let mut wg: Option<RwLockWriteGuard<'static, usize>> = None;
    for op in ops {
        let a = op.as_array().unwrap();
        let k = a[0].as_str().unwrap();
        let u = |i: usize| a[i].as_u64().unwrap() as usize;
        match k {
            "lock" => { g[u(1)] = Some(o.ms[u(1)].lock().unwrap()); }
            "trylock" => { match o.ms[u(1)].try_lock() { Ok(x) => { g[u(1)] = Some(x); out.push(1) } Err(_) => out.push(0) } }
            "unlock" => { g[u(1)] = None; }
            "incr" => { if let Some(x) = g[u(1)].as_mut() { **x += 1; out.push(**x as i64) } else { out.push(-1) } }
            "read" => { rg = Some(o.rw.read().unwrap()); out.push(**rg.as_ref().unwrap() as i64) }
            "tryread" => { match o.rw.try_read() { Ok(x) => { out.push(*x as i64); rg = Some(x) } Err(_) => out.push(-1) } }
            "write" => { wg = Some(o.rw.write().unwrap()); let w = wg.as_mut().unwrap(); **w += 1; out.push(**w as i64) }
            "trywrite" => { match o.rw.try_write() { Ok(mut x) => { *x += 1; out.push(*x as i64); wg = Some(x) } Err(_) => out.push(-1) } }
            "unlock_r" => { rg = None; }
            "unlock_w" => { wg = None; }
            "send" => { tx.as_ref().unwrap().send(u(1)).unwrap(); }
            "recv" => { out.push(rx.unwrap().recv().unwrap() as i64); }
            "tryrecv" => { out.push(rx.unwrap().try_recv().map(|v| v as i64).unwrap_or(-1)); }
            "park" => { thread::park(); }
            "unpark" => { let t = threads.lock().unwrap()[u(1)].clone().unwrap(); t.unpark(); }
            "st" => { o.ats[u(1)].store(u(2), SeqCst); }
            "ld" => { out.push(o.ats[u(1)].load(SeqCst) as i64); }
            "cvwait" => { let guard = g[0].take().unwrap(); g[0] = Some(o.cv.wait(guard).unwrap()); }
            "cvwaitz" => { let mut guard = g[0].take().unwrap(); while *guard == 0 { guard = o.cv.wait(guard).unwrap(); } g[0] = Some(guard); }
            "notify_one" => { o.cv.notify_one(); }
            "notify_all" => { o.cv.notify_all(); }
            _ => panic!("op {}", k),
        }
    }
}
fn exec2(ops: &[Value], o: &'static Objs, tx: Option<Sender<usize>>, rx: Option<Receiver<usize>>, threads: &'static StdMutex<Vec<Option<thread::Thread>>>, out: &mut Vec<i64>) -> Option<Receiver<usize>> {
    // like exec but hands the receiver back so that it is dropped after the joins
    let rxr = rx;
    exec_ref(ops, o, tx, rxr.as_ref(), threads, out);
    rxr
}
fn main() {
    let path = std::env::args().nth(1).unwrap();
    let cap: usize = std::env::args().nth(2).map(|s| s.parse().unwrap()).unwrap_or(100_000);
    let progs: Value = serde_json::from_str(&std::fs::read_to_string(path).unwrap()).unwrap();
    std::panic::set_hook(Box::new(|_| {}));
    for p in progs.as_array().unwrap() {
        let threads: &'static Vec<Vec<Value>> = leak(p["threads"].as_array().unwrap().iter().map(|t| t.as_array().unwrap().clone()).collect());
        let rx_thread = p["rx_thread"].as_u64().unwrap_or(0) as usize;
        let join = p["join"].as_bool().unwrap_or(false);
        let set: &'static StdMutex<BTreeSet<Vec<Vec<i64>>>> = leak(StdMutex::new(BTreeSet::new()));
        let cur: &'static StdMutex<Vec<Vec<i64>>> = leak(StdMutex::new(vec![]));
        let iters: &'static StdMutex<usize> = leak(StdMutex::new(0));
        let mut b = loom::model::Builder::new();
        b.checkpoint_interval = 1000; b.max_permutations = Some(cap); b.max_branches = 5000;
        let nth = threads.len();
        let r = std::panic::catch_unwind(std::panic::AssertUnwindSafe(|| b.check(move || {
            { let mut c = cur.lock().unwrap(); if !c.is_empty() { set.lock().unwrap().insert(c.clone()); } *c = vec![vec![]; nth]; }
            *iters.lock().unwrap() += 1;
            let (tx, rx) = channel::<usize>();
            let o: &'static Objs = leak(Objs { ms: vec![leak(Mutex::new(0)), leak(Mutex::new(0))], rw: leak(RwLock::new(0)), cv: leak(Condvar::new()), ats: vec![leak(AtomicUsize::new(0)), leak(AtomicUsize::new(0))], tx: StdMutex::new(None), rx: StdMutex::new(None) });
            let _ = (&o.tx, &o.rx);
            let handles: &'static StdMutex<Vec<Option<thread::Thread>>> = leak(StdMutex::new(vec![None; nth]));
            handles.lock().unwrap()[0] = Some(thread::current());
            let mut jhs = vec![];
            let mut rx_opt = Some(rx);
            let mut main_rx = None;
            if rx_thread == 0 { main_rx = rx_opt.take(); }
            for t in 1..nth {
                let txc = tx.clone();
                let rxc = if rx_thread == t { rx_opt.take() } else { None };
                let h = thread::spawn(move || { let mut out = vec![]; exec(&threads[t], o, Some(txc), rxc, handles, &mut out); cur.lock().unwrap()[t] = out; });
                handles.lock().unwrap()[t] = Some(h.thread().clone());
                jhs.push(h);
            }
            let mut out = vec![];
            let keep_rx = exec2(&threads[0], o, Some(tx), main_rx, handles, &mut out);
            cur.lock().unwrap()[0] = out;
            if join { for h in jhs { h.join().unwrap(); } }
            drop(keep_rx);
        })));
        { let c = cur.lock().unwrap(); if r.is_ok() && !c.is_empty() { set.lock().unwrap().insert(c.clone()); } }
        let n = *iters.lock().unwrap();
        let pm = r.err().map(|e| scratch::msg(e));
        let outs: Vec<_> = set.lock().unwrap().iter().cloned().collect();
        println!("{}", serde_json::json!({"outcomes": outs, "iters": n, "panic": pm, "capped": n >= cap - 1}));
    }
}
