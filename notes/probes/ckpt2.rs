use loom::sync::atomic::AtomicUsize;
use loom::sync::Notify;
use loom::thread;
use std::sync::atomic::Ordering::*;
use std::sync::{Arc, Mutex};
type Out = (usize, usize, u8);
fn body(log: &Arc<Mutex<Vec<Out>>>, k: usize, panic_at: Option<usize>) {
    let x = Arc::new(AtomicUsize::new(0));
    let n = Arc::new(Notify::new());
    let (x2, n2) = (x.clone(), n.clone());
    let t = thread::spawn(move || { x2.store(1, Relaxed); n2.notify(); x2.load(Relaxed) });
    x.store(2, Relaxed);
    n.wait();
    let a = x.load(Relaxed);
    let b = t.join().unwrap();
    log.lock().unwrap().push((a, b, 0));
    if Some(k) == panic_at { panic!("boom"); }
}
fn run(file: Option<&str>, interval: usize, maxp: Option<usize>, panic_at: Option<usize>, pb: Option<usize>) -> (Vec<Out>, bool) {
    let log = Arc::new(Mutex::new(Vec::new()));
    let l2 = log.clone();
    let mut b = loom::model::Builder::new();
    b.checkpoint_interval = interval; b.max_permutations = maxp; b.preemption_bound = pb;
    if let Some(f) = file { b.checkpoint_file(f); }
    let n = Arc::new(std::sync::atomic::AtomicUsize::new(0));
    let r = std::panic::catch_unwind(std::panic::AssertUnwindSafe(|| b.check(move || { let k = n.fetch_add(1, SeqCst) + 1; body(&l2, k, panic_at); })));
    let v = log.lock().unwrap().clone();
    (v, r.is_err())
}
fn main() {
    let f = "/tmp/scratch/ck2.json";
    for pb in [None, Some(2)] {
        let (full, _) = run(None, 20000, None, None, pb);
        let n = full.len();
        println!("pb={:?} N={}", pb, n);
        let mut bad = 0; let mut checked = 0;
        for c in [1usize, 2, 3, 5, 7] {
            for k in 1..=n.min(40) {
                // clean stop
                let _ = std::fs::remove_file(f);
                let (a, _) = run(Some(f), c, Some(k), None, pb);
                let (b, _) = run(Some(f), c, None, None, pb);
                let stop_i = ((k + c - 1) / c) * c; // first multiple of c >= k
                let exp_first = (stop_i - 1).min(n);
                let mut cat = a.clone(); cat.extend(b.clone());
                checked += 1;
                if a.len() != exp_first || (stop_i <= n && cat != full) { bad += 1; if bad < 5 { println!("  MISMATCH clean c={} k={} first={} (exp {}) second={} ", c, k, a.len(), exp_first, b.len()); } }
                // crash at iteration k
                let _ = std::fs::remove_file(f);
                let (a, p) = run(Some(f), c, None, Some(k), pb);
                assert!(p && a.len() == k);
                let last_ck = (k / c) * c; // last stored checkpoint iteration (0 = none)
                let (b, _) = run(Some(f), c, None, None, pb);
                let exp: Vec<Out> = if last_ck == 0 { full.clone() } else { full[last_ck - 1..].to_vec() };
                checked += 1;
                if b != exp { bad += 1; if bad < 5 { println!("  MISMATCH crash c={} k={} resumed={} exp={}", c, k, b.len(), exp.len()); } }
            }
        }
        println!("  checked={} bad={}", checked, bad);
    }
}
