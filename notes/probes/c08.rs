// park token delivered while target waits for a mutex
use loom::thread;
use std::sync::Arc;
use loom::sync::Mutex;
use loom::sync::atomic::AtomicUsize;
use std::sync::atomic::Ordering::*;
fn main() {
    let r = std::panic::catch_unwind(|| {
        loom::model(|| {
            let m = Arc::new(Mutex::new(0));
            let flag = Arc::new(AtomicUsize::new(0));
            let (m2, f2) = (m.clone(), flag.clone());
            let t = thread::spawn(move || {
                { let _g = m2.lock().unwrap(); }
                // wait for token
                thread::park();
                f2.load(SeqCst)
            });
            {
                let _g = m.lock().unwrap();
                t.thread().unpark();
            }
            t.join().unwrap();
        });
    });
    println!("result: {:?}", r.map_err(|e| e.downcast_ref::<String>().cloned().or(e.downcast_ref::<&str>().map(|s| s.to_string()))));
}
