use loom::cell::UnsafeCell;
use loom::thread;
use scratch::*;
use std::sync::atomic::{AtomicUsize, Ordering::SeqCst};

static INITS: AtomicUsize = AtomicUsize::new(0);
static DROPS: AtomicUsize = AtomicUsize::new(0);
struct V(UnsafeCell<usize>);
impl Drop for V { fn drop(&mut self) { DROPS.fetch_add(1, SeqCst); } }
unsafe impl Sync for V {}
loom::lazy_static! { static ref LS: V = { INITS.fetch_add(1, SeqCst); V(UnsafeCell::new(5)) }; }
loom::thread_local! { static TL: V = { INITS.fetch_add(100, SeqCst); V(UnsafeCell::new(6)) }; }

fn main() {
    show("lazy 2 threads", outcomes(builder(), || {
        let i0 = INITS.load(SeqCst); let d0 = DROPS.load(SeqCst);
        let t = thread::spawn(|| LS.0.with(|p| unsafe { *p }));
        let a = LS.0.with(|p| unsafe { *p });
        let b = t.join().unwrap();
        (a, b, INITS.load(SeqCst) - i0, DROPS.load(SeqCst) - d0)
    }));
    println!("after: inits={} drops={}", INITS.load(SeqCst), DROPS.load(SeqCst));
    show("tls 2 threads", outcomes(builder(), || {
        let i0 = INITS.load(SeqCst); let d0 = DROPS.load(SeqCst);
        let t = thread::spawn(|| { TL.with(|v| v.0.with_mut(|p| unsafe { *p += 1; *p })); TL.with(|v| v.0.with(|p| unsafe { *p })) });
        let a = TL.with(|v| v.0.with(|p| unsafe { *p }));
        let b = t.join().unwrap();
        (a, b, (INITS.load(SeqCst) - i0) / 100, DROPS.load(SeqCst) - d0)
    }));
    println!("after: inits={} drops={}", INITS.load(SeqCst), DROPS.load(SeqCst));
    // concurrent OS threads
    let hs: Vec<_> = (0..8).map(|k| std::thread::spawn(move || {
        let r = outcomes(builder(), move || {
            let x = std::sync::Arc::new(loom::sync::atomic::AtomicUsize::new(0));
            let x2 = x.clone();
            let t = thread::spawn(move || { x2.store(1 + k, SeqCst); format!("{:?}", thread::current().id()) });
            let a = x.load(SeqCst);
            (a, t.join().unwrap(), format!("{:?}", thread::current().id()))
        });
        (r.0.keys().cloned().collect::<Vec<_>>(), r.1, r.2)
    })).collect();
    for h in hs { println!("{:?}", h.join().unwrap()); }
}
