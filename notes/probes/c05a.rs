// unpark a thread that is blocked in join
use loom::thread;
fn main() {
    let r = std::panic::catch_unwind(|| {
        loom::model(|| {
            let t1 = thread::spawn(|| { thread::yield_now(); });
            let t2 = thread::spawn(move || { t1.join().unwrap(); });
            t2.thread().unpark();
            t2.join().unwrap();
        });
    });
    println!("join-unpark result: {:?}", r.map_err(|e| e.downcast_ref::<String>().cloned().or(e.downcast_ref::<&str>().map(|s| s.to_string()))));
    let r = std::panic::catch_unwind(|| {
        loom::model(|| {
            let m = std::sync::Arc::new(loom::sync::Mutex::new(0));
            let m2 = m.clone();
            let g = m.lock().unwrap();
            let t2 = thread::spawn(move || { let _g = m2.lock().unwrap(); });
            thread::yield_now();
            t2.thread().unpark();
            thread::yield_now();
            drop(g);
            t2.join().unwrap();
        });
    });
    println!("mutex-unpark result: {:?}", r.map_err(|e| e.downcast_ref::<String>().cloned().or(e.downcast_ref::<&str>().map(|s| s.to_string()))));
}
