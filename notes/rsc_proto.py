#!/usr/bin/env python3
"""Prototype of the exhaustive-interleaving reference (R-SC) for a subset of the
primitives, matching notes/probes/syncrun.rs.  Throw-away; the real one is Rust.

Program: {"threads": [[op...], ...], "rx_thread": k, "join": bool}
ops: lock m | trylock m | unlock m | incr m | read | tryread | write | trywrite | unlock_r | unlock_w
     send v | recv | tryrecv | park | unpark t | st a v | ld a | cvwait | notify_one | notify_all
Outcome: tuple of per-thread result tuples, or the string "deadlock".
"""
import sys, json


def explore(prog, limit=200000):
    threads = prog["threads"]
    nth = len(threads)
    join = prog.get("join", False)
    # state: (pcs, results, mowner, mdata, rw_writer, rw_readers, rwdata, queue, tokens, atom, cvq, cvphase)
    init = (tuple([0] * nth), tuple([()] * nth), (None, None), (0, 0), None, frozenset(), 0, (), tuple([0] * nth), (0, 0), (), tuple([0] * nth))
    seen = set()
    stack = [init]
    outcomes = set()
    deadlock = False
    states = 0
    while stack:
        s = stack.pop()
        if s in seen:
            continue
        seen.add(s)
        states += 1
        if states > limit:
            raise RuntimeError("too many states")
        pcs, res, mown, mdata, rww, rwr, rwd, q, tok, atom, cvq, cvp = s
        succs = []
        alldone = True
        for t in range(nth):
            pc = pcs[t]
            ops = threads[t]
            if pc >= len(ops):
                if t == 0 and join and pc == len(ops):
                    # implicit joinall
                    alldone = False
                    if all(pcs[u] >= len(threads[u]) for u in range(1, nth)):
                        npcs = list(pcs); npcs[0] = pc + 1
                        succs.append((tuple(npcs), res, mown, mdata, rww, rwr, rwd, q, tok, atom, cvq, cvp))
                continue
            alldone = False
            op = ops[pc]
            k = op[0]
            npcs = list(pcs); npcs[t] = pc + 1; npcs = tuple(npcs)
            def push(r=None, **kw):
                nres = res
                if r is not None:
                    l = list(res); l[t] = res[t] + (r,); nres = tuple(l)
                d = dict(pcs=npcs, res=nres, mown=mown, mdata=mdata, rww=rww, rwr=rwr, rwd=rwd, q=q, tok=tok, atom=atom, cvq=cvq, cvp=cvp)
                d.update(kw)
                succs.append((d["pcs"], d["res"], d["mown"], d["mdata"], d["rww"], d["rwr"], d["rwd"], d["q"], d["tok"], d["atom"], d["cvq"], d["cvp"]))
            def setm(m, v):
                l = list(mown); l[m] = v; return tuple(l)
            if k == "lock":
                m = op[1]
                if mown[m] is None:
                    push(mown=setm(m, t))
            elif k == "trylock":
                m = op[1]
                if mown[m] is None:
                    push(1, mown=setm(m, t))
                else:
                    push(0)
            elif k == "unlock":
                m = op[1]
                if mown[m] == t:
                    push(mown=setm(m, None))
                else:
                    push()
            elif k == "incr":
                m = op[1]
                if mown[m] == t:
                    l = list(mdata); l[m] += 1
                    push(l[m], mdata=tuple(l))
                else:
                    push(-1)
            elif k == "read":
                if rww is None:
                    push(rwd, rwr=rwr | {t})
            elif k == "tryread":
                if rww is None:
                    push(rwd, rwr=rwr | {t})
                else:
                    push(-1)
            elif k == "write":
                if rww is None and not rwr:
                    push(rwd + 1, rww=t, rwd=rwd + 1)
            elif k == "trywrite":
                if rww is None and not rwr:
                    push(rwd + 1, rww=t, rwd=rwd + 1)
                else:
                    push(-1)
            elif k == "unlock_r":
                push(rwr=rwr - {t})
            elif k == "unlock_w":
                push(rww=None if rww == t else rww)
            elif k == "send":
                push(q=q + (op[1],))
            elif k == "recv":
                if q:
                    push(q[0], q=q[1:])
            elif k == "tryrecv":
                if q:
                    push(q[0], q=q[1:])
                else:
                    push(-1)
            elif k == "park":
                if tok[t]:
                    l = list(tok); l[t] = 0
                    push(tok=tuple(l))
            elif k == "unpark":
                l = list(tok); l[op[1]] = 1
                push(tok=tuple(l))
            elif k == "st":
                l = list(atom); l[op[1]] = op[2]
                push(atom=tuple(l))
            elif k == "ld":
                push(atom[op[1]])
            elif k == "cvwait":
                ph = cvp[t]
                if ph == 0:      # enqueue + unlock, stay on this op
                    l = list(cvp); l[t] = 1
                    d_p = list(pcs)
                    succs.append((tuple(d_p), res, setm(0, None), mdata, rww, rwr, rwd, q, tok, atom, cvq + (t,), tuple(l)))
                elif ph == 2:    # notified: reacquire
                    if mown[0] is None:
                        l = list(cvp); l[t] = 0
                        push(mown=setm(0, t), cvp=tuple(l))
                # ph == 1: blocked
            elif k == "cvwaitz":
                ph = cvp[t]
                if ph == 0:
                    if mdata[0] != 0:
                        push()          # predicate already true
                    else:
                        l = list(cvp); l[t] = 1
                        succs.append((pcs, res, setm(0, None), mdata, rww, rwr, rwd, q, tok, atom, cvq + (t,), tuple(l)))
                elif ph == 2:
                    if mown[0] is None:
                        l = list(cvp); l[t] = 0
                        succs.append((pcs, res, setm(0, t), mdata, rww, rwr, rwd, q, tok, atom, cvq, tuple(l)))  # re-check predicate
            elif k == "notify_one":
                if cvq:
                    # any waiter may be woken (validity); FIFO is one of them
                    for i in range(len(cvq)):
                        w = cvq[i]
                        l = list(cvp); l[w] = 2
                        push(cvq=cvq[:i] + cvq[i + 1:], cvp=tuple(l))
                else:
                    push()
            elif k == "notify_all":
                l = list(cvp)
                for w in cvq:
                    l[w] = 2
                push(cvq=(), cvp=tuple(l))
            else:
                raise ValueError(k)
        if alldone:
            outcomes.add(res)
        elif not succs:
            deadlock = True
        else:
            stack.extend(succs)
    return outcomes, deadlock, states


if __name__ == "__main__":
    for p in json.load(open(sys.argv[1])):
        o, d, n = explore(p)
        print(sorted(o), d, n)
