#!/usr/bin/env python3
"""Prototype of the axiomatic RC11 reference (R-AX) used to de-risk DESIGN.md.

Program format (shared with notes/litmus_runner.rs):
  {"nlocs": n, "threads": [[op,...], ...]}   thread 0 = main (runs after spawning the others)
  op = ["st",loc,val,ord] | ["ld",loc,ord] | ["swap",loc,val,ord] | ["fadd",loc,k,ord]
     | ["cas",loc,exp,new,succ,fail] | ["fence",ord]          ord in rlx acq rel ar sc
Outcome = [[reads of thread 0], [reads of thread 1], ..., [final value per loc]]
  cas success -> value read, failure -> -(value)-1
"""
import itertools, json, sys

REL = {"rel", "ar", "sc"}
ACQ = {"acq", "ar", "sc"}


def closure(rel, n):
    r = rel[:]
    for k in range(n):
        rk = r[k]
        bit = 1 << k
        for i in range(n):
            if r[i] & bit:
                r[i] |= rk
    return r


def compose(a, b, n):
    out = [0] * n
    for i in range(n):
        m = a[i]
        acc = 0
        j = 0
        while m:
            if m & 1:
                acc |= b[j]
            m >>= 1
            j += 1
        out[i] = acc
    return out


def union(*rs):
    n = len(rs[0])
    return [functools_or(r[i] for r in rs) for i in range(n)]


def functools_or(it):
    v = 0
    for x in it:
        v |= x
    return v


def acyclic(rel, n):
    c = closure(rel, n)
    return all(not (c[i] >> i) & 1 for i in range(n))


def irreflexive(rel, n):
    return all(not (rel[i] >> i) & 1 for i in range(n))


class Ev:
    __slots__ = ("id", "th", "idx", "kind", "loc", "ord", "op", "is_init")

    def __init__(self, id, th, idx, kind, loc, ord_, op, is_init=False):
        self.id, self.th, self.idx, self.kind, self.loc, self.ord, self.op, self.is_init = id, th, idx, kind, loc, ord_, op, is_init


def outcomes(prog, weak_sc_accesses, strong_rs):
    """Return set of outcome tuples (as nested tuples)."""
    nlocs = prog["nlocs"]
    threads = prog["threads"]
    evs = []
    # init writes
    for l in range(nlocs):
        evs.append(Ev(len(evs), -1, l, "W", l, "rlx", None, True))
    per_thread = []
    threads = list(threads)
    npre = None; npost = None
    if prog.get("pre") is not None:
        npre = len(threads); threads.append(prog["pre"])
    if prog.get("post") is not None:
        npost = len(threads); threads.append(prog["post"])
    for t, ops in enumerate(threads):
        ids = []
        for i, op in enumerate(ops):
            k = op[0]
            if k == "st":
                e = Ev(len(evs), t, i, "W", op[1], op[3], op)
            elif k == "ld":
                e = Ev(len(evs), t, i, "R", op[1], op[2], op)
            elif k in ("swap", "fadd"):
                e = Ev(len(evs), t, i, "U", op[1], op[3], op)
            elif k == "cas":
                e = Ev(len(evs), t, i, "C", op[1], None, op)  # resolved later into U or R
            elif k == "fence":
                e = Ev(len(evs), t, i, "F", None, op[1], op)
            elif k == "await":
                e = Ev(len(evs), t, i, "R", op[1], op[3], op)   # read constrained to value op[2]
            elif k in ("naw", "nar"):
                e = Ev(len(evs), t, i, "N", None, None, op)
            evs.append(e)
            ids.append(e.id)
        per_thread.append(ids)
    n = len(evs)
    # sb: init -> all; program order within thread
    sb = [0] * n
    allnon = functools_or(1 << e.id for e in evs if not e.is_init)
    for l in range(nlocs):
        sb[l] = allnon
    for ids in per_thread:
        for a in range(len(ids)):
            for b in range(a + 1, len(ids)):
                sb[ids[a]] |= 1 << ids[b]
    if npre is not None:
        for a in per_thread[npre]:
            for t2, ids in enumerate(per_thread):
                if t2 != npre:
                    for b in ids:
                        sb[a] |= 1 << b
    if npost is not None:
        for b in per_thread[npost]:
            for t2, ids in enumerate(per_thread):
                if t2 != npost:
                    for a in ids:
                        sb[a] |= 1 << b
    # pre/post events belong to main (thread 0) for race purposes
    for e in evs:
        if npre is not None and e.th == npre: e.th = 0
        if npost is not None and e.th == npost: e.th = 0
    # extra hb edges: none from main's ops to children (spawn happens first); children -> final reads handled separately
    readers = [e for e in evs if e.kind in ("R", "U", "C")]
    writers_by_loc = {l: [e for e in evs if e.loc == l and e.kind in ("W", "U", "C")] for l in range(nlocs)}
    results = set()
    races = []
    rf_choices = [[w for w in writers_by_loc[r.loc] if w.id != r.id] for r in readers]
    for choice in itertools.product(*rf_choices):
        rf_src = {r.id: w.id for r, w in zip(readers, choice)}
        # evaluate values along sb u rf (must be acyclic)
        rfrel = [0] * n
        for r, w in rf_src.items():
            rfrel[w] |= 1 << r
        if not acyclic([sb[i] | rfrel[i] for i in range(n)], n):
            continue
        # topological evaluation
        wval = {}   # event id -> value written (if it writes)
        rval = {}
        kind = {}
        order_ = {}
        done = set()
        ok = True
        pending = list(range(n))
        # simple iterative evaluation
        progress = True
        while pending and progress:
            progress = False
            rest = []
            for i in pending:
                e = evs[i]
                if e.is_init:
                    wval[i] = 0; kind[i] = "W"; order_[i] = "rlx"; done.add(i); progress = True; continue
                if e.kind == "F":
                    kind[i] = "F"; order_[i] = e.ord; done.add(i); progress = True; continue
                if e.kind == "N":
                    kind[i] = "N"; order_[i] = "na"; done.add(i); progress = True; continue
                if e.kind == "W":
                    wval[i] = e.op[2]; kind[i] = "W"; order_[i] = e.ord; done.add(i); progress = True; continue
                src = rf_src[i]
                if src not in done:
                    rest.append(i); continue
                if src not in wval:
                    ok = False; break   # reading from a failed CAS (not a write)
                v = wval[src]
                rval[i] = v
                if e.kind == "R":
                    kind[i] = "R"; order_[i] = e.ord
                    if e.op[0] == "await" and v != e.op[2]:
                        ok = False; break
                elif e.kind == "U":
                    kind[i] = "U"; order_[i] = e.ord
                    wval[i] = e.op[2] if e.op[0] == "swap" else v + e.op[2]
                else:  # cas
                    if v == e.op[2]:
                        kind[i] = "U"; order_[i] = e.op[4]; wval[i] = e.op[3]
                    else:
                        kind[i] = "R"; order_[i] = e.op[5]
                done.add(i); progress = True
            if not ok:
                break
            pending = rest
        if not ok or pending:
            continue
        # a failed CAS cannot be an rf source: checked above via wval
        # effective orders
        def is_rel(i):
            o = order_[i]
            return kind[i] in ("W", "U", "F") and o in REL
        def is_acq(i):
            o = order_[i]
            return kind[i] in ("R", "U", "F") and o in ACQ
        def is_sc_access(i):
            return kind[i] in ("R", "W", "U") and order_[i] == "sc" and not weak_sc_accesses
        def is_sc_fence(i):
            return kind[i] == "F" and order_[i] == "sc"
        wr_by_loc = {l: [i for i in range(n) if evs[i].loc == l and kind.get(i) in ("W", "U")] for l in range(nlocs)}
        mo_perms = []
        for l in range(nlocs):
            ws = [i for i in wr_by_loc[l] if not evs[i].is_init]
            mo_perms.append([[l] + list(p) for p in itertools.permutations(ws)])
        for mos in itertools.product(*mo_perms):
            mo = [0] * n
            pos = {}
            for seq in mos:
                for a in range(len(seq)):
                    pos[seq[a]] = a
                    for b in range(a + 1, len(seq)):
                        mo[seq[a]] |= 1 << seq[b]
            # rb = rf^-1 ; mo
            rb = [0] * n
            for r, w in rf_src.items():
                rb[r] |= mo[w] & ~(1 << r)
            # atomicity: U reads immediate mo predecessor
            good = True
            for i in range(n):
                if kind[i] == "U":
                    w = rf_src[i]
                    if evs[w].loc != evs[i].loc or pos[w] + 1 != pos[i]:
                        good = False; break
            if not good:
                continue
            # release sequences: rs[w] = set of writes in rs of w
            def rs_of(w):
                s = {w}
                if strong_rs:
                    for j in range(n):
                        if (sb[w] >> j) & 1 and kind[j] in ("W", "U") and evs[j].loc == evs[w].loc:
                            s.add(j)
                changed = True
                while changed:
                    changed = False
                    for r, src in rf_src.items():
                        if src in s and kind[r] == "U" and r not in s:
                            s.add(r); changed = True
                return s
            sw = [0] * n
            for w in range(n):
                if kind[w] not in ("W", "U") or evs[w].is_init:
                    continue
                # release sources for w: w itself if rel, or a rel fence sb-before w
                srcs = []
                if is_rel(w):
                    srcs.append(w)
                for f in range(n):
                    if kind[f] == "F" and order_[f] in REL and (sb[f] >> w) & 1:
                        srcs.append(f)
                if not srcs:
                    continue
                for w2 in rs_of(w):
                    for r, src in rf_src.items():
                        if src != w2:
                            continue
                        tgts = []
                        if is_acq(r):
                            tgts.append(r)
                        for f in range(n):
                            if kind[f] == "F" and order_[f] in ACQ and (sb[r] >> f) & 1:
                                tgts.append(f)
                        for a in srcs:
                            for b in tgts:
                                if evs[a].th != evs[b].th:
                                    sw[a] |= 1 << b
            hb = closure([sb[i] | sw[i] for i in range(n)], n)
            eco = closure([rfrel[i] | mo[i] | rb[i] for i in range(n)], n)
            # coherence: hb ; eco? irreflexive
            if not irreflexive(hb, n):
                continue
            hbeco = compose(hb, eco, n)
            if not irreflexive(hbeco, n):
                continue
            # SC axiom
            sc_ev = [i for i in range(n) if is_sc_access(i) or is_sc_fence(i)]
            if sc_ev:
                def loc_of(i):
                    return evs[i].loc
                sb_nl = [0] * n
                for a in range(n):
                    m = sb[a]
                    for b in range(n):
                        if (m >> b) & 1 and (loc_of(a) is None or loc_of(b) is None or loc_of(a) != loc_of(b)):
                            sb_nl[a] |= 1 << b
                hb_loc = [0] * n
                for a in range(n):
                    for b in range(n):
                        if (hb[a] >> b) & 1 and loc_of(a) is not None and loc_of(a) == loc_of(b):
                            hb_loc[a] |= 1 << b
                scb = [sb[i] | compose(compose(sb_nl, hb, n), sb_nl, n)[i] | hb_loc[i] | mo[i] | rb[i] for i in range(n)]
                ident = [1 << i for i in range(n)]
                hbq = [hb[i] | ident[i] for i in range(n)]
                # left = [Esc] u [Fsc];hb?   right = [Esc] u hb?;[Fsc]
                left = [0] * n
                right_mask_sc = functools_or(1 << i for i in range(n) if is_sc_access(i))
                fsc_mask = functools_or(1 << i for i in range(n) if is_sc_fence(i))
                for i in range(n):
                    if is_sc_access(i):
                        left[i] |= 1 << i
                    if is_sc_fence(i):
                        left[i] |= hbq[i]
                right = [0] * n
                for i in range(n):
                    if (right_mask_sc >> i) & 1:
                        right[i] |= 1 << i
                    right[i] |= hbq[i] & fsc_mask
                psc_base = compose(compose(left, scb, n), right, n)
                hb_eco_hb = compose(compose(hb, eco, n), hb, n)
                psc_f = [0] * n
                for i in range(n):
                    if is_sc_fence(i):
                        psc_f[i] = (hb[i] | hb_eco_hb[i]) & fsc_mask
                psc = [psc_base[i] | psc_f[i] for i in range(n)]
                if not acyclic(psc, n):
                    continue
            # data races on non-atomic cells
            racy = False
            nas = [i for i in range(n) if kind.get(i) == "N"]
            for a in nas:
                for b in nas:
                    if a < b and evs[a].th != evs[b].th and evs[a].op[1] == evs[b].op[1] and ("naw" in (evs[a].op[0], evs[b].op[0])):
                        if not ((hb[a] >> b) & 1 or (hb[b] >> a) & 1):
                            racy = True
            if racy:
                races.append(True)
            # outcome
            out = []
            for ids in per_thread:
                vals = []
                for i in ids:
                    e = evs[i]
                    if e.kind in ("R", "U") and e.op[0] != "await":
                        vals.append(rval[i])
                    elif e.kind == "C":
                        vals.append(rval[i] if kind[i] == "U" else -rval[i] - 1)
                out.append(tuple(vals))
            fin = tuple(wval[seq[-1]] for seq in mos)
            out.append(fin)
            results.add(tuple(out))
    if prog.get("_want_races"):
        return results, bool(races)
    return results


def race_bounds(prog):
    p = dict(prog); p["_want_races"] = True
    _, must = outcomes(p, weak_sc_accesses=False, strong_rs=True)
    _, may = outcomes(p, weak_sc_accesses=True, strong_rs=False)
    return must, may


def bounds(prog):
    A = outcomes(prog, weak_sc_accesses=False, strong_rs=True)
    U = outcomes(prog, weak_sc_accesses=True, strong_rs=False)
    return A, U


if __name__ == "__main__":
    progs = json.load(open(sys.argv[1]))
    for p in progs:
        A, U = bounds(p)
        print(json.dumps({"A": sorted(A), "U": sorted(U)}))
