import json, random, subprocess, sys, time
sys.path.insert(0, '/verif/notes')
from rsc_proto import explore
def gen(rng, fam):
    nth = rng.choice([2,2,3])
    threads = [[] for _ in range(nth)]
    prog = {"threads": threads, "rx_thread": 0, "join": False, "fam": fam}
    budget = rng.choice([4,5,6,7])
    def mutex_block(t, depth=0):
        ops = []
        m = rng.randrange(2) if depth == 0 else 1 - depth_m[0]
        if rng.random() < 0.3 and depth == 0:
            ops += [["trylock", m]]
            if rng.random() < 0.7: ops += [["incr", m]]
            ops += [["unlock", m]]
        else:
            ops += [["lock", m]]
            if rng.random() < 0.7: ops += [["incr", m]]
            if fam == "mutex+at" and rng.random() < 0.5: ops += [rng.choice([["st", 0, t + 1], ["ld", 0]])]
            if depth == 0 and rng.random() < 0.3:
                depth_m[0] = m
                ops += mutex_block(t, 1)
            ops += [["unlock", m]]
        return ops
    depth_m = [0]
    if fam in ("mutex", "mutex+at"):
        for t in range(nth):
            for _ in range(rng.choice([1,1,2])):
                threads[t] += mutex_block(t)
                if fam == "mutex+at" and rng.random() < 0.4: threads[t] += [rng.choice([["st", 0, t + 1], ["ld", 0]])]
    elif fam == "rwlock":
        for t in range(nth):
            for _ in range(rng.choice([1,2])):
                k = rng.choice(["read","write","tryread","trywrite"])
                threads[t] += [[k]]
                threads[t] += [["unlock_r"]] if "read" in k else [["unlock_w"]]
    elif fam == "chan":
        prog["join"] = True
        v = 1
        for t in range(1, nth):
            for _ in range(rng.choice([1,2])):
                threads[t] += [["send", v]]; v += 1
        nsend = v - 1
        nrecv = 0
        for _ in range(rng.choice([1,2,3])):
            if nrecv < nsend and rng.random() < 0.6:
                threads[0] += [["recv"]]; nrecv += 1
            else:
                threads[0] += [["tryrecv"]]
    elif fam == "park":
        # thread 1..: park, main unparks, plus atomics
        for t in range(1, nth):
            threads[t] += [["park"]] if rng.random() < 0.8 else []
            threads[t] += [["ld", 0]]
            if rng.random() < 0.3: threads[t] += [["park"]]
        for t in range(1, nth):
            if rng.random() < 0.5: threads[0] += [["st", 0, t]]
            threads[0] += [["unpark", t]]
            if rng.random() < 0.3: threads[0] += [["unpark", t]]
        rng.shuffle(threads[0])
    elif fam == "cvz":
        # waiters with predicate loop; notifiers increment under the lock then notify
        for t in range(1, nth):
            if rng.random() < 0.75:
                threads[t] += [["lock", 0], ["cvwaitz"], ["incr", 0], ["unlock", 0]]
            else:
                threads[t] += [["lock", 0], ["incr", 0], ["unlock", 0], [rng.choice(["notify_one", "notify_all"])]]
        r = rng.random()
        if r < 0.7:
            threads[0] += [["lock", 0], ["incr", 0], ["unlock", 0], [rng.choice(["notify_one", "notify_all"])]]
        elif r < 0.85:
            threads[0] += [["lock", 0], ["incr", 0], ["unlock", 0]]           # forgot to notify
        else:
            threads[0] += [[rng.choice(["notify_one", "notify_all"])], ["lock", 0], ["incr", 0], ["unlock", 0]]   # notify before setting
        if rng.random() < 0.3: threads[0] += [[rng.choice(["notify_one", "notify_all"])]]
    elif fam == "cv":
        # waiters: lock 0; cvwait; incr; unlock   notifier: lock 0; incr; unlock; notify
        for t in range(1, nth):
            threads[t] += [["lock", 0], ["cvwait"], ["incr", 0], ["unlock", 0]]
        n = rng.choice(["notify_one", "notify_all"])
        threads[0] += [["lock", 0], ["incr", 0], ["unlock", 0], [n]]
        if rng.random() < 0.5: threads[0] += [[rng.choice(["notify_one", "notify_all"])]]
    return prog
def tup(o): return tuple(tuple(x) for x in o)
def run(binary, progs, cap=60000):
    json.dump(progs, open('/tmp/lit/_s.json','w'))
    out = subprocess.run([binary, '/tmp/lit/_s.json', str(cap)], capture_output=True, text=True, timeout=3000, env={"RUST_BACKTRACE":"0"})
    return [json.loads(l) for l in out.stdout.splitlines() if l.startswith("{")], out.returncode
if __name__ == "__main__":
    seed = int(sys.argv[1]); n = int(sys.argv[2]); fam = sys.argv[3]
    rng = random.Random(seed)
    progs = [gen(rng, fam) for _ in range(n)]
    for binary in sys.argv[4:]:
        res, rc = run(binary, progs)
        stats = dict(ok=0, missing=0, extra=0, dl_missed=0, dl_false=0, otherpanic=0, capped=0, dl_ok=0)
        bad = []
        if len(res) != len(progs): print("runner died after", len(res), "programs rc", rc, json.dumps(progs[len(res)]))
        for p, r in zip(progs, res):
            SC, dl, _ = explore(p)
            L = set(tup(o) for o in r["outcomes"])
            pm = r["panic"]
            if r["capped"]: stats["capped"] += 1; continue
            if pm and not pm.startswith("deadlock"): stats["otherpanic"] += 1; bad.append((p, "panic", pm)); continue
            if dl and not pm: stats["dl_missed"] += 1; bad.append((p, "deadlock missed", sorted(SC - L))); continue
            if pm and not dl: stats["dl_false"] += 1; bad.append((p, "false deadlock", pm)); continue
            if dl: stats["dl_ok"] += 1; continue
            miss = SC - L; extra = (L - SC) if "at" not in fam and fam != "park" else set()
            if miss: stats["missing"] += 1
            if extra: stats["extra"] += 1
            if miss or extra: bad.append((p, "missing", sorted(miss), "extra", sorted(extra)))
            else: stats["ok"] += 1
        print(fam, binary, stats)
        for b in bad[:6]: print("    ", json.dumps(b[0]["threads"]), b[1:])
