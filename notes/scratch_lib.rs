use std::collections::BTreeMap;
use std::fmt::Debug;
use std::sync::{Arc, Mutex};

pub fn msg(e: Box<dyn std::any::Any + Send>) -> String {
    e.downcast_ref::<String>().cloned().or(e.downcast_ref::<&str>().map(|s| s.to_string())).unwrap_or_default().lines().find(|l| !l.trim().is_empty()).unwrap_or("").to_string()
}

/// Run a model, collecting the multiset of outcomes; returns (map, iterations, panic message)
pub fn outcomes<T: Ord + Debug + Send + 'static>(b: loom::model::Builder, f: impl Fn() -> T + Send + Sync + 'static) -> (BTreeMap<T, usize>, usize, Option<String>) {
    let map = Arc::new(Mutex::new(BTreeMap::new()));
    let iters = Arc::new(Mutex::new(0usize));
    let (m2, i2) = (map.clone(), iters.clone());
    let r = std::panic::catch_unwind(std::panic::AssertUnwindSafe(|| b.check(move || {
        *i2.lock().unwrap() += 1;
        let v = f();
        *m2.lock().unwrap().entry(v).or_insert(0) += 1;
    })));
    let m = std::mem::take(&mut *map.lock().unwrap());
    let n = *iters.lock().unwrap();
    (m, n, r.err().map(msg))
}
pub fn show<T: Ord + Debug>(name: &str, r: (BTreeMap<T, usize>, usize, Option<String>)) {
    println!("{}: iters={} outcomes={:?} panic={:?}", name, r.1, r.0.keys().collect::<Vec<_>>(), r.2);
}
pub fn builder() -> loom::model::Builder { let mut b = loom::model::Builder::new(); b.checkpoint_interval = 1000; b.max_permutations = Some(200_000); b }
