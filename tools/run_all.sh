#!/bin/bash
# run_all.sh [tier]: run every registered check once (seed from VERIF_SEED, default 1) and summarise.
cd "$(dirname "$0")/.."
tier=${1:-quick}
fail=0
for p in C01 C02 C03 C04 C05 C06 C07 C08 C09 C10 C11 C12 C13 C14 C15 C16 C17 C18 C19 C20; do
  out=$(./check $p $tier 2>&1); rc=$?
  echo "$out" | grep -v "^KNOWN-FINDING" | tail -1 | cut -c1-220
  [ $rc -ne 0 ] && { fail=1; echo "   ^^^ exit $rc"; echo "$out" | grep -A1 "^VIOLATION" | cut -c1-400; }
done
exit $fail
