#!/bin/bash
# confirm_seeded.sh <ID> <a|b>: confirm a sub-agent's mutation in its scratch worktree /tmp/wt/<ID>:
#  demo passes on pristine, patch applies, builds, suite passes with it, demo fails with it.
# On success copies the artefacts to /verif/seeded/<ID>_<v>/ and writes meta.json there.
ID=$1; V=$2; R=${3:-}; WT=/tmp/wt/$ID; S=$WT/SEEDED   # optional 3rd argument: round tag (e.g. r5) -> seeded/<ID><tag>_<v>
cd $WT || exit 2
git checkout -q -- . ; rm -f tests/seeded_*.rs
demo=seeded_${ID}_${V}
feat=""
grep -E -q '"features": *"[^"]*(futures|checkpoint)' $S/$V.meta.json 2>/dev/null && feat="--features checkpoint,futures"
cp $S/$demo.rs tests/ || exit 2
r_pristine=$(timeout 600 cargo test --offline $feat --test $demo 2>&1 | grep -E "^test result" | tail -1)
git apply $S/$V.patch.diff || { echo "$ID $V: patch does not apply"; exit 1; }
b1=$(timeout 600 cargo build --offline 2>&1 | tail -1)
b2=$(timeout 600 cargo build --offline --features checkpoint,futures 2>&1 | tail -1)
r_mut=$(timeout 600 cargo test --offline $feat --test $demo 2>&1 | grep -E "^test result" | tail -1)
rm -f tests/$demo.rs
suite=$(timeout 900 cargo test --workspace --no-fail-fast --offline 2>&1 | grep -E "^test result" | awk '{p+=$4; f+=$6} END {print p" passed, "f" failed"}')
git checkout -q -- . 
echo "$ID $V | pristine demo: $r_pristine | mutated demo: $r_mut | suite: $suite | build: $b1 / $b2"
ok=1
echo "$r_pristine" | grep -q "ok\." || ok=0
echo "$r_mut" | grep -q "FAILED" || ok=0
echo "$suite" | grep -q " 0 failed" || ok=0
echo "$suite" | grep -q "^142 passed" || ok=0
if [ $ok = 1 ]; then
  D=/verif/seeded/${ID}${R}_$V; mkdir -p $D
  cp $S/$V.patch.diff $D/patch.diff; cp $S/$demo.rs $D/demo.rs
  python3 - "$S/$V.meta.json" "$D/meta.json" "$r_pristine" "$r_mut" "$suite" "$feat" <<'PY'
import json,sys
src,dst,rp,rm,suite,feat=sys.argv[1:7]
try: m=json.load(open(src))
except Exception: m={}
out={"property":m.get("property"),"summary":m.get("summary"),"files":m.get("files"),"needs_to_manifest":m.get("needs_to_manifest"),
 "demonstration":"demo.rs (an integration test: copy to tests/ of a loom checkout and run cargo test --offline %s --test <name>)"%feat,
 "confirmed_by_me":{"where":"scratch worktree of /repo HEAD under /tmp/wt","demo_on_pristine":rp,"demo_with_patch":rm,"existing_suite_with_patch":suite,"builds":"cargo build --offline and --features checkpoint,futures both succeed"}}
json.dump(out,open(dst,"w"),indent=1)
PY
  echo "  -> kept as $D"
else
  echo "  -> NOT confirmed"
fi
