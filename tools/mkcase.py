#!/usr/bin/env python3
"""mkcase.py <prop> "<program text as printed by the harness>" [rx_owner] -> case JSON on stdout"""
import sys, re, json, os
sys.path.insert(0, os.path.dirname(os.path.abspath(__file__)))
import mk_known as K

MO = {"rlx": "Rlx", "acq": "Acq", "rel": "Rel", "ar": "AcqRel", "sc": "Sc"}

def parse_op(s):
    s = s.strip()
    m = re.match(r"^x(\d+)\.load\((\w+)\)$", s)
    if m: return {"Load": {"a": int(m[1]), "o": MO[m[2]]}}
    m = re.match(r"^x(\d+)\.store\((\d+),(\w+)\)$", s)
    if m: return {"Store": {"a": int(m[1]), "v": int(m[2]), "o": MO[m[3]]}}
    m = re.match(r"^x(\d+)\.swap\((\d+),(\w+)\)$", s)
    if m: return {"Swap": {"a": int(m[1]), "v": int(m[2]), "o": MO[m[3]]}}
    m = re.match(r"^x(\d+)\.fetch_add\((\d+),(\w+)\)$", s)
    if m: return {"FetchAdd": {"a": int(m[1]), "v": int(m[2]), "o": MO[m[3]]}}
    m = re.match(r"^x(\d+)\.cas\((\d+)->(\d+),(\w+),(\w+)\)$", s)
    if m: return {"Cas": {"a": int(m[1]), "e": int(m[2]), "n": int(m[3]), "s": MO[m[4]], "f": MO[m[5]]}}
    m = re.match(r"^fence\((\w+)\)$", s)
    if m: return {"Fence": {"o": MO[m[1]]}}
    m = re.match(r"^await\(x(\d+)==(\d+),(\w+),(\w+)\)$", s)
    if m: return {"Await": {"a": int(m[1]), "v": int(m[2]), "o": MO[m[3]], "spin": m[4] == "spin"}}
    m = re.match(r"^x(\d+)\.with_mut$", s)
    if m: return {"AtomWithMut": {"a": int(m[1])}}
    m = re.match(r"^x(\d+)\.unsync_load$", s)
    if m: return {"AtomUnsyncLoad": {"a": int(m[1])}}
    m = re.match(r"^c(\d+)\.(read|write)$", s)
    if m: return {("CellRead" if m[2] == "read" else "CellWrite"): {"c": int(m[1])}}
    m = re.match(r"^m(\d+)\.(get_mut|into_inner)$", s)
    if m: return {("MtxGetMut" if m[2] == "get_mut" else "MtxIntoInner"): {"m": int(m[1])}}
    m = re.match(r"^rw(\d+)\.(get_mut|into_inner)$", s)
    if m: return {("RwGetMut" if m[2] == "get_mut" else "RwIntoInner"): {"r": int(m[1])}}
    m = re.match(r"^m(\d+)\.(lock|try_lock|unlock|incr|get)$", s)
    if m: return {{"lock": "Lock", "try_lock": "TryLock", "unlock": "Unlock", "incr": "Incr", "get": "Get"}[m[2]]: {"m": int(m[1])}}
    m = re.match(r"^rw(\d+)\.(read|try_read|write|try_write|unlock_r|unlock_w|get)$", s)
    if m: return {{"read": "Read", "try_read": "TryRead", "write": "Write", "try_write": "TryWrite", "unlock_r": "UnlockR", "unlock_w": "UnlockW", "get": "RwGet"}[m[2]]: {"r": int(m[1])}}
    m = re.match(r"^cv(\d+)\.(wait|wait_while_zero)\(m(\d+)\)$", s)
    if m: return {("CvWait" if m[2] == "wait" else "CvWaitWhileZero"): {"cv": int(m[1]), "m": int(m[3])}}
    m = re.match(r"^cv(\d+)\.(notify_one|notify_all)$", s)
    if m: return {("NotifyOne" if m[2] == "notify_one" else "NotifyAll"): {"cv": int(m[1])}}
    m = re.match(r"^nf(\d+)\.(wait|notify)$", s)
    if m: return {("NfWait" if m[2] == "wait" else "NfNotify"): {"n": int(m[1])}}
    m = re.match(r"^(unpark|spawn|join)\(t(\d+)\)$", s)
    if m: return {m[1].capitalize(): {"t": int(m[2])}}
    m = re.match(r"^send\((\d+)\)$", s)
    if m: return {"Send": {"v": int(m[1])}}
    m = re.match(r"^arc(\d+)\.clone->t(\d+)$", s)
    if m: return {"ArcClone": {"x": int(m[1]), "to": int(m[2])}}
    m = re.match(r"^arc(\d+)\.drop_unwinding$", s)
    if m: return {"ArcDropUnwind": {"x": int(m[1])}}
    m = re.match(r"^track(\d+)\.drop_unwinding$", s)
    if m: return {"TrackDropUnwind": {"k": int(m[1])}}
    m = re.match(r"^dealloc_unwinding(\d+)$", s)
    if m: return {"DeallocUnwind": {"k": int(m[1])}}
    m = re.match(r"^arc(\d+)\.(\S+)$", s)
    if m:
        n = {"drop": "ArcDrop", "strong_count": "ArcCount", "get_mut": "ArcGetMut", "try_unwrap": "ArcTryUnwrap", "into_raw+from_raw": "ArcRawRoundTrip",
             "inc_strong": "ArcIncStrong", "dec_strong": "ArcDecStrong", "forget": "ArcForget", "cell_write": "ArcCellWrite", "cell_read": "ArcCellRead"}[m[2]]
        return {n: {"x": int(m[1])}}
    m = re.match(r"^track(\d+)\.(new|drop|forget)$", s)
    if m: return {"Track" + m[2].capitalize(): {"k": int(m[1])}}
    m = re.match(r"^(alloc|dealloc)(\d+)$", s)
    if m: return {m[1].capitalize(): {"k": int(m[2])}}
    m = re.match(r"^tls(\d+)\.(with|nested|bump)$", s)
    if m: return {"Tls" + m[2].capitalize(): {"k": int(m[1])}}
    m = re.match(r"^lazy(\d+)\.(get|cell_read)$", s)
    if m: return {("LazyGet" if m[2] == "get" else "LazyCellRead"): {"k": int(m[1])}}
    m = re.match(r"^x(\d+)\.store_on_drop$", s)
    if m: return {"DropGuardStore": {"a": int(m[1])}}
    m = re.match(r"^c(\d+)\.with_mut\(panic\)$", s)
    if m: return {"PanicInCellMut": {"c": int(m[1])}}
    if s == "count_polls": return "LoopCounter"
    m = re.match(r"^c(\d+)\.nested\((\d+)\)$", s)
    if m: return {"CellNested": {"c": int(m[1]), "k": int(m[2])}}
    m = re.match(r"^x(\d+)\.with_mut\(panic\)$", s)
    if m: return {"PanicInAtomMut": {"a": int(m[1])}}
    m = re.match(r"^skip_next_unless\((-?\d+)\)$", s)
    if m: return {"SkipNextUnless": {"v": int(m[1])}}
    m = re.match(r"^panic_if\((-?\d+)\)$", s)
    if m: return {"PanicIf": {"v": int(m[1])}}
    simple = {"park": "Park", "yield": "Yield", "recv": "Recv", "try_recv": "TryRecv", "drop(rx)": "DropRx", "stop_exploring": "StopExploring", "explore": "Explore", "skip_branch": "SkipBranch"}
    if s in simple: return simple[s]
    raise SystemExit("cannot parse op: " + s)

def parse_prog(text):
    rx = 0; arcs = []
    m = re.search(r"\[rx@t(\d+)\]", text)
    if m: rx = int(m[1]); text = text.replace(m[0], "")
    m = re.search(r"\[arc owners \[([\d, ]*)\]\]", text)
    if m: arcs = [int(x) for x in m[1].split(",") if x.strip()]; text = text.replace(m[0], "")
    threads = []
    for part in text.split("||"):
        body = part.split(":", 1)[1]
        threads.append([parse_op(o) for o in body.split(";") if o.strip()])
    return {"threads": threads, "rx_owner": rx, "arc_owner": arcs}

def case_from_text(prop, family, text, cfg=None, x=None):
    c = K.case(prop, family, "t0: park")
    c["prog"] = parse_prog(text)
    if cfg: c["cfg"].update(cfg)
    if x: c["x"] = x
    return c

if __name__ == "__main__":
    text = sys.argv[2]
    text = re.sub(r"^\[\S+\]\s*", "", text)
    print(json.dumps(case_from_text(sys.argv[1], "manual", text)))
