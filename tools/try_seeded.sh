#!/bin/bash
# try_seeded.sh <seeded-dir-name> <prop> [<prop>...] : apply the seeded patch to /repo, run the quick checks, undo.
D=/verif/seeded/$1; shift
[ -f $D/patch.diff ] || { echo "no $D/patch.diff"; exit 2; }
cd /verif
git -C /repo apply $D/patch.diff || { echo "patch does not apply"; exit 2; }
for p in "$@"; do
  out=$(./check $p ${TIER:-quick} 2>&1); rc=$?
  echo "== $(basename $D) vs $p: exit $rc"
  echo "$out" | grep -E "^VIOLATION|^  \[" | cut -c1-400 | head -${LINES_MAX:-4}
  echo "$out" | tail -1 | cut -c1-200
done
git -C /repo checkout -- .
