#!/bin/bash
# seeded_matrix.sh [mutant ...]: run every seeded change against its own property's quick check (plus the
# related checks listed in RELATED) in a scratch copy of the framework, so that /repo and /verif/build stay
# untouched. Needs a scratch worktree of /repo HEAD at $WT (default /tmp/wt/chk). Output: one line per
# (mutant, check): exit code and the first VIOLATION line.
WT=${WT:-/tmp/wt/chk}
SCR=${SCR:-/tmp/lvm}
declare -A RELATED=( [C15r2_b]="C13" [C16r2_a]="C13 C02" [C16r2_b]="C19" [C16_a]="C13 C02" [C16_b]="C19" [C09_b]="C04" [C01_b]="C05" )
mkdir -p $SCR/build
rsync -r --delete --exclude target /verif/harness/ $SCR/harness/
cp /verif/known_findings.json $SCR/; mkdir -p $SCR/corpus
git -C $WT checkout -q --detach $(git -C /repo rev-parse HEAD); git -C $WT checkout -q -- .
muts=("$@"); [ ${#muts[@]} -eq 0 ] && muts=($(ls /verif/seeded))
for m in "${muts[@]}"; do
  git -C $WT checkout -q -- .
  if ! git -C $WT apply /verif/seeded/$m/patch.diff 2>/dev/null; then echo "$m | - | patch does not apply on the current tree"; continue; fi
  rsync -rc --delete --exclude target --exclude .git --exclude SEEDED $WT/ $SCR/build/loom-src/
  ( cd $SCR/harness && CARGO_TARGET_DIR=$SCR/target cargo build --release --offline 2>$SCR/build.log ) || { echo "$m | - | build failed"; continue; }
  own=${m:0:3}
  for p in $own ${RELATED[$m]}; do
    out=$(cd $SCR && LV_ROOT=$SCR timeout 900 $SCR/target/release/lv run $p quick 2>&1); rc=$?
    v=$(echo "$out" | grep -A1 "^VIOLATION" | sed -n 2p | cut -c1-260)
    echo "$m | $p | exit $rc | $v"
  done
done
git -C $WT checkout -q -- .
