#!/usr/bin/env python3
"""Regenerates /verif/known_findings.json (run by hand, the output is committed; no check ever writes it).

Programs are written in a compact text form:   "t0: op; op || t1: op; op"   with ops such as
  st(x0,1,rel) ld(x0,acq) swap(x0,2,rlx) fadd(x0,1,sc) cas(x0,0,1,sc,rlx) fence(acq) spawn(1) join(1)
and every other DSL op by its serde name with k=v fields:  Lock(m=0)  TryLock(m=0)  Send(v=1)  Recv  Park  Unpark(t=1)
"""
import json, re, sys, os

MO = {"rlx": "Rlx", "acq": "Acq", "rel": "Rel", "ar": "AcqRel", "sc": "Sc"}


def op(s):
    s = s.strip()
    m = re.match(r"^(\w+)(?:\((.*)\))?$", s)
    name, args = m.group(1), [a.strip() for a in (m.group(2) or "").split(",") if a.strip()]
    loc = lambda a: int(a.lstrip("x"))
    if name == "st":
        return {"Store": {"a": loc(args[0]), "v": int(args[1]), "o": MO[args[2]]}}
    if name == "ld":
        return {"Load": {"a": loc(args[0]), "o": MO[args[1]]}}
    if name == "swap":
        return {"Swap": {"a": loc(args[0]), "v": int(args[1]), "o": MO[args[2]]}}
    if name == "fadd":
        return {"FetchAdd": {"a": loc(args[0]), "v": int(args[1]), "o": MO[args[2]]}}
    if name == "cas":
        return {"Cas": {"a": loc(args[0]), "e": int(args[1]), "n": int(args[2]), "s": MO[args[3]], "f": MO[args[4]]}}
    if name == "fence":
        return {"Fence": {"o": MO[args[0]]}}
    if name == "spawn":
        return {"Spawn": {"t": int(args[0])}}
    if name == "join":
        return {"Join": {"t": int(args[0])}}
    if name == "await":
        return {"Await": {"a": loc(args[0]), "v": int(args[1]), "o": MO[args[2]], "spin": len(args) > 3 and args[3] == "spin"}}
    if not args:
        return name
    d = {}
    for a in args:
        k, v = a.split("=")
        d[k] = MO[v] if v in MO else (v == "true" if v in ("true", "false") else int(v))
    return {name: d}


def prog(text, rx_owner=0, arc_owner=()):
    threads = []
    for part in text.split("||"):
        body = part.split(":", 1)[1]
        threads.append([op(o) for o in body.split(";") if o.strip()])
    return {"threads": threads, "rx_owner": rx_owner, "arc_owner": list(arc_owner)}


def case(prop, family, text, cfg=None, x=None, **kw):
    c = {"prop": prop, "family": family, "prog": prog(text, **kw)}
    base_cfg = {"preemption_bound": None, "max_branches": 5000, "max_threads": 5, "max_permutations": 400000,
                "checkpoint_interval": 64, "expect_explicit_explore": False}
    if cfg:
        base_cfg.update(cfg)
    c["cfg"] = base_cfg
    c["x"] = x or {}
    return c


F = []
# every check decided by the R-SC reference can run into the scheduling-point findings
SCP = ["C01", "C04", "C05", "C07", "C08", "C09", "C10", "C11", "C17"]


def known(id, properties, what, kinds, klass, reproducer):
    F.append({"id": id, "properties": properties, "status": "known", "commit": None, "what": what, "kinds": kinds,
              "class": klass, "reproducer": reproducer,
              "record": "known: property=%s %s" % (",".join(properties), what)})


def fixed(id, properties, commit, what, kinds, reproducer):
    F.append({"id": id, "properties": properties, "status": "fixed", "commit": commit, "what": what, "kinds": kinds,
              "class": "exact", "reproducer": reproducer,
              "record": "fixed: property=%s %s %s" % (reproducer["prop"], commit, what)})


JOIN3 = "t0: spawn(1); spawn(2); spawn(3); join(1); join(2); join(3); "
JOIN2 = "t0: spawn(1); spawn(2); join(1); join(2); "

# ---------------------------------------------------------------- fixed (suppress nothing; reproducers must pass)
fixed("F1", ["C02", "C04"], "c03883e",
      "acquire fence synchronised with stores read by any thread in the fencing thread's causality: "
      "x0=1;x1.store(1,rel) || x1.load(rlx);x2.store(1,rel) || x2.load(acq);fence(acq);x0.load(rlx) never yielded (1,1,0)",
      ["missing_outcome"],
      case("C02", "corpus", JOIN3 + "ld(x0,rlx); ld(x1,rlx); ld(x2,rlx) || t1: st(x0,1,rlx); st(x1,1,rel) || "
           "t2: ld(x1,rlx); st(x2,1,rel) || t3: ld(x2,acq); fence(acq); ld(x0,rlx)"))

# ---------------------------------------------------------------- known
known("F7a", ["C03"],
      "coherence: t1: x0=1;x0=2 || t2: x0=3; r=x0 ; joins; f=x0 yields (r,f)=(1,1) - read coherence joins modification-order clocks "
      "into the store that was read, which can make it incomparable with its successor (src/rt/atomic.rs apply_load_coherence)",
      ["forbidden_outcome"], "k7a",
      case("C03", "known", JOIN2 + "ld(x0,rlx) || t1: st(x0,1,rlx); st(x0,2,rlx) || t2: st(x0,3,rlx); ld(x0,rlx)"))
known("F7b", ["C03"],
      "RMW atomicity: x0.store(1) || r=x0.swap(2); joins; f=x0 yields (r,f)=(0,2) - a plain store executed after an RMW is not "
      "ordered after the RMW's write in modification order (src/rt/atomic.rs State::store / match_rmw_to_stores)",
      ["forbidden_outcome"], "k7b",
      case("C03", "known", JOIN2 + "ld(x0,rlx) || t1: st(x0,1,rlx) || t2: swap(x0,2,rlx)"))
known("F7b-missing", ["C02"],
      "an RMW only ever reads the newest store in loom's execution order, it can never take a place in the middle of the "
      "modification order: x0.store(1,sc);x1.store(1,rel) || a=x1.load(rlx); b=x0.swap(2,rlx) never yields a=1,b=0",
      ["missing_outcome"], "k7b",
      case("C02", "known", JOIN2 + "ld(x0,rlx); ld(x1,rlx) || t1: st(x0,1,sc); st(x1,1,rel) || t2: ld(x1,rlx); swap(x0,2,rlx)"))

known("F9", SCP,
      "try_lock/try_read/try_write never observe another thread's critical section: a thread whose pending operation is a try_* is "
      "blocked like a blocking acquire while the lock is held and unlock is not a scheduling point, so `lock;incr;unlock || try_lock` "
      "never explores the failing try_lock (src/rt/mutex.rs, src/rt/rwlock.rs)",
      ["missing_outcome", "false_deadlock"], "try_lock_contended",
      case("C07", "known", "t0: spawn(1); Lock(m=0); Incr(m=0); Unlock(m=0) || t1: TryLock(m=0); Unlock(m=0)"))
fixed("F2", ["C01", "C05", "C09"], "7760bb3",
      "try_recv on an empty channel is not a scheduling point and send/recv are not treated as dependent: `try_recv || send(1)` "
      "only ever returns Empty (src/sync/mpsc.rs try_recv, src/rt/mpsc.rs)",
      ["missing_outcome", "missed_deadlock"],
      case("C09", "known", "t0: spawn(1); TryRecv; join(1) || t1: Send(v=1)"))
known("F2b", SCP + ["C15", "C19"],
      "dropping the Receiver (emptiness test in Receiver::drop) is not a scheduling point: a send that can take effect after the "
      "receiver was dropped is explored only in the order send-before-drop, so the `Messages leaked` report of the other order is "
      "never produced: main: send(1) || t1: send(2) || t2 owns the receiver and exits",
      ["missed_leak", "missing_outcome", "bounded_only_failure", "bounded_result_not_in_unbounded", "restricted_only_failure", "result_not_in_unrestricted"], "label:send_after_rx_drop",
      case("C09", "known", "t0: spawn(1); spawn(2); Send(v=1); join(1); join(2) || t1: Send(v=2) || t2: Yield", rx_owner=2))

fixed("F5a", ["C01", "C04", "C05", "C08"], "5d6c669",
      "the park token lives in the thread's run state and `unpark` makes any blocked thread runnable: unparking a thread that is "
      "blocked in join makes it runnable although the joined thread has not finished -> panic `assertion failed: state.notified`; "
      "blocked on a mutex -> `expected to be able to acquire lock` (src/rt/thread.rs Thread::unpark / set_unparked)",
      ["unexpected_panic", "false_deadlock", "missed_deadlock", "impossible_outcome", "invalid_trace"],
      case("C05", "known", "t0: spawn(1); join(1) || t1: Lock(m=0); Incr(m=0); Unpark(t=0); Incr(m=0); Unlock(m=0)"))
fixed("F5c", ["C01", "C04", "C05", "C08"], "5d6c669",
      "park/unpark are not scheduling points and the unparker's clock is joined into the target at unpark time: "
      "`unpark(t1); c0.write; unpark(t1) || t1: park; c0.read` is explored in one order only and the data race is never reported",
      ["missed_race"],
      case("C08", "known", "t0: spawn(1); Unpark(t=1); CellWrite(c=0); Unpark(t=1) || t1: Park; CellRead(c=0)"))
fixed("F5d", ["C01", "C04", "C05", "C08"], "5d6c669",
      "park/unpark are not scheduling points: with two unparks racing two parks of the same thread only one relative order is "
      "explored, so the execution in which both unparks precede the first park (one token, second park blocks forever) is missed",
      ["missed_deadlock", "missing_outcome"],
      case("C05", "known", "t0: spawn(1); spawn(2); join(1); join(2) || t1: Park; Park || t2: Unpark(t=1); Unpark(t=1)"))
known("F11", SCP,
      "two readers of an RwLock are treated as independent by the partial-order reduction although a reader's unlock synchronises "
      "with the next reader's lock: conflicting non-atomic writes made under two read guards are explored in one order only and the "
      "overlapping execution, in which they race, is never reported",
      ["missed_race"], "write_under_read_lock",
      case("C07", "known", "t0: spawn(1); Read(r=0); CellWrite(c=0); UnlockR(r=0) || t1: Read(r=0); CellWrite(c=0); UnlockR(r=0)"))

fixed("F5e", ["C01", "C04", "C05", "C08"], "5d6c669",
      "Notify::notify wakes its waiter through the park/unpark state: a second notify that finds the waiter already runnable stores "
      "a park token in it, so a later thread::park returns although nobody called unpark: "
      "`nf.wait; park || nf.notify; nf.notify; nf.notify` completes instead of deadlocking (src/rt/notify.rs notify -> Thread::unpark)",
      ["impossible_outcome", "missed_deadlock", "invalid_trace"],
      case("C08", "known", "t0: spawn(1); NfWait(n=0); Park; join(1) || t1: NfNotify(n=0); NfNotify(n=0); NfNotify(n=0)"))

known("F12", ["C02", "C18"],
      "SeqCst events are ordered by loom's single execution order (SeqCst fences join a global clock both ways; a SeqCst load never "
      "reads a SeqCst store older than the newest executed one): an RC11-consistent outcome whose SeqCst order runs against po U rf is "
      "never explored, e.g. x2.store(1,sc);fence(sc);x0.store(1,rlx) || x0.load(rlx)=1;x1.store(1,rlx) || x1.load(rlx)=1;fence(sc);"
      "x2.load(sc)=0 (src/rt/thread.rs seq_cst_fence, src/rt/atomic.rs match_load_to_stores)",
      ["missing_outcome_fence_order"], "label:operational_order",
      case("C02", "known", JOIN3 + "ld(x0,rlx); ld(x1,rlx); ld(x2,rlx) || t1: st(x2,1,sc); fence(sc); st(x0,1,rlx) || "
           "t2: ld(x0,rlx); st(x1,1,rlx) || t3: ld(x1,rlx); fence(sc); ld(x2,sc)"))

known("F13", ["C15"],
      "an operation that follows yield_now can never be ordered before the dependent operation of another thread by the unbounded "
      "partial-order reduction (the backtrack point schedules the thread, which then only yields and is deprioritised), although the "
      "preemption-bounded run of the same program does explore that order: t0: lock; cv.wait; notify_all; unlock || t1: yield; notify_one "
      "deadlocks (lost notification) with preemption_bound=2 but the unbounded run completes",
      ["bounded_only_failure", "bounded_result_not_in_unbounded"], "has_yield",
      case("C15", "known", "t0: spawn(1); Lock(m=0); CvWait(cv=0,m=0); NotifyAll(cv=0); Unlock(m=0); join(1) || t1: Yield; NotifyOne(cv=0)", x={"n": 2}))

known("F13c", ["C18"],
      "same root cause as F13 in a do-while spin loop (`loop { yield_now(); if flag { break } }`): an outcome that needs the yielding "
      "thread to run between two operations of the writer neither of which conflicts with its own neighbouring operations is never "
      "explored, because the partial-order reduction treats those operations as independent while the yield (the writer performs "
      "exactly its pending operation) makes their order matter: main: r0=x3; yield; await x0; r1=x1 || t1: x0=1; x3=1; x2=2; x1=1 "
      "never yields (r0,r1)=(1,0). Found by the thorough tier (1 of ~900 do-while programs)",
      ["missing_outcome_yield_placement"], "has_yield",
      case("C18", "known", "t0: spawn(1); ld(x3,sc); Yield; await(x0,1,sc); ld(x1,sc); await(x1,1,sc); ld(x2,sc) || "
           "t1: st(x0,1,sc); st(x3,1,sc); st(x2,2,sc); st(x1,1,sc)", cfg={"max_branches": 4000}))

fixed("F14", ["C06", "C10"], "bebf2a3",
      "a block from loom::alloc::alloc that is still tracked when the execution is torn down (leaked, or live while the model panics) "
      "was dropped outside the model: the `Allocation leaked` report aborted the process instead of unwinding",
      ["process_abort", "missed_leak", "unexpected_panic"],
      case("C10", "corpus", "t0: spawn(1); Alloc(k=0) || t1: Yield"))

fixed("F6p", ["C01", "C10", "C11"], "276c07b",
      "Arc: strong_count / get_mut / try_unwrap racing with a clone or drop of another thread was explored in one order only "
      "(main: strong_count || t1 drops its handle yielded only the count 2)",
      ["missing_outcome", "missed_leak"],
      case("C11", "corpus", "t0: ArcClone(x=0,to=1); spawn(1); ArcCount(x=0); join(1) || t1: ArcDrop(x=0)", arc_owner=[0]))

fixed("F3", ["C06"], "9ef0eca",
      "a panic right after thread::spawn, while the new thread's closure (owning a loom::sync::Arc) was still queued, dropped that "
      "closure outside the execution during unwinding and aborted the process",
      ["process_abort", "unexpected_panic", "later_run_not_clean"],
      case("C06", "corpus", "t0: ArcClone(x=0,to=1); spawn(1); PanicIf(v=-1) || t1: ArcCount(x=0)", arc_owner=[0], x={"mode": "user_panic"},
           cfg={"max_permutations": 3000, "checkpoint_interval": 1}))
fixed("F4", ["C05", "C06", "C20"], "097a7ec",
      "reporting a deadlock left the execution without an active thread; destructors that ran while the deadlock panic unwound "
      "(loom::sync::Arc handles owned by the deadlocked threads) then panicked again and aborted the process",
      ["process_abort", "unexpected_panic", "later_run_not_clean", "missed_deadlock"],
      case("C06", "corpus", "t0: ArcClone(x=0,to=1); spawn(1); Lock(m=0); Incr(m=0); Lock(m=1); Unlock(m=1); Unlock(m=0); join(1) || "
           "t1: Lock(m=1); Incr(m=1); Lock(m=0); Unlock(m=0); Unlock(m=1); ArcCount(x=0)", arc_owner=[0], x={"mode": "own_failure_or_none"},
           cfg={"max_permutations": 3000, "checkpoint_interval": 1}))

known("F13b", SCP + ["C15"],
      "same root cause as F13, reached through the spurious return of Notify::wait (which yields): after the spurious return the "
      "thread is deprioritised until another thread has taken a step, so its following operation can never be ordered before the "
      "dependent operation of that thread: t0: lock; incr; notify; unlock || t1: nf.wait; lock; incr; unlock never lets t1 take the lock first",
      ["missing_outcome", "missed_deadlock", "missed_leak", "missed_race", "bounded_only_failure", "bounded_result_not_in_unbounded"], "op_after_spurious_wait",
      case("C08", "known", "t0: spawn(1); Lock(m=0); Incr(m=0); NfNotify(n=0); Unlock(m=0); join(1) || t1: NfWait(n=0); Lock(m=0); Incr(m=0); Unlock(m=0)"))

known("F10", ["C04"],
      "two SeqCst fences order non-atomic accesses although no atomic access connects them: fence(SeqCst) joins a global clock in "
      "both directions, i.e. acts as a happens-before edge between any two SeqCst fences in execution order (and fences are no "
      "scheduling points): t1: c0.write; fence(sc) || t2: fence(sc); c0.read is never reported as a race (src/rt/thread.rs seq_cst_fence)",
      ["missed_race"], "sc_fence_pair",
      case("C04", "known", "t0: spawn(1); spawn(2) || t1: CellWrite(c=0); fence(sc) || t2: fence(sc); CellRead(c=0)"))

known("F7c", ["C02", "C18"],
      "a failing compare_exchange is only a load and may read any coherent value, but loom lets every read-modify-write read the "
      "newest store only: t1: x0.fetch_add(1,rlx); x1.store(1,rlx) || t2: a=x1.load(rlx); x0.compare_exchange(5,6) never yields "
      "a=1 together with Err(0) (src/rt/atomic.rs match_rmw_to_stores)",
      ["missing_outcome_cas_order"], "label:operational_order",
      case("C02", "known", JOIN2 + "ld(x0,rlx); ld(x1,rlx) || t1: fadd(x0,1,rlx); st(x1,1,rlx) || t2: ld(x1,rlx); cas(x0,5,6,rlx,rlx)"))

fixed("F15", ["C06"], "f79a53d",
      "a model that panics while a lazy static has been initialised (or while an unfinished thread owns thread-locals) dropped these "
      "values outside the model; a value owning a loom::sync::Arc then panicked in its destructor during unwinding and the process aborted",
      ["process_abort", "unexpected_panic", "later_run_not_clean"],
      case("C06", "corpus", "t0: spawn(1); TlsBump(k=1); LazyGet(k=1); PanicIf(v=-1) || t1: TlsBump(k=1); LazyGet(k=1); Yield", x={"mode": "user_panic"},
           cfg={"max_permutations": 3000, "checkpoint_interval": 1}))
fixed("F16", ["C13", "C16"], "f9cd2a2",
      "thread-locals of a thread and the lazy statics of an execution were destroyed in hash-map iteration order, which differs from "
      "process to process; destructors that perform loom operations (dropping a loom::sync::Arc) made the explored executions depend on the process",
      ["depends_on_other_models", "nondeterministic", "resume_differs", "first_run_differs"],
      case("C16", "corpus", "t0: spawn(1); TlsNested(k=0); st(x0,2,sc); LazyGet(k=1); LazyGet(k=0); join(1) || t1: TlsNested(k=1); ld(x0,sc); LazyGet(k=0)",
           x={"mode": "seq", "n": 2, "prog2": prog("t0: spawn(1); TlsBump(k=0) || t1: Yield")},
           cfg={"max_permutations": 400, "checkpoint_interval": 1}))

fixed("F17", ["C13"], "70321bb",
      "the branch limit is the capacity of the branch store; a path loaded from a checkpoint kept the (power-of-two) capacity "
      "deserialization left it with when that exceeded max_branches, so a checkpoint of an iteration that failed with the "
      "branch-limit panic did not reproduce the failure: the resumed run continued (77 more iterations in the reproducer)",
      ["resume_differs", "resume_failure_differs"],
      case("C13", "corpus", "t0: spawn(1); ld(x2,rlx); await(x0,1,rlx); ld(x2,sc); ld(x1,acq); await(x1,1,sc); ld(x2,rlx) || "
           "t1: st(x2,1,rel); st(x0,1,rel); st(x2,2,rel); st(x1,1,rel)",
           x={"mode": "clean", "n": -1, "k": 47546, "c": 1}, cfg={"max_permutations": None, "preemption_bound": 2}))

fixed("F6", ["C01", "C02", "C15", "C18"], "f45e043",
      "one last_access per atomic: a thread's own load masked another thread's earlier load when its store looked for a dependent "
      "access, so main: x=1; r0=x || t: r1=x; x=2 never yielded (r0,r1)=(2,1)",
      ["missing_outcome"],
      case("C01", "corpus", "t0: spawn(1); st(x0,1,sc); ld(x0,sc) || t1: ld(x0,sc); st(x0,2,sc)"))

if __name__ == "__main__":
    out = os.path.join(os.path.dirname(os.path.abspath(__file__)), "..", "known_findings.json")
    json.dump({"findings": F}, open(out, "w"), indent=1)
    print("wrote", len(F), "findings")
