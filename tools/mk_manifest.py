#!/usr/bin/env python3
"""Regenerates /verif/MANIFEST.json from the table below (run by hand; output committed)."""
import json, os

ROOT = os.path.join(os.path.dirname(os.path.abspath(__file__)), "..")
props = [json.loads(l) for l in open(os.path.join(ROOT, "properties.jsonl"))]
ids = [p["id"] for p in props]

# id -> (technique, level text, level note, design ref)
CLAIMED = {
    "C02": ("property-based differential + metamorphic testing: generated litmus programs run under loom vs brute-force axiomatic RC11 enumeration (must-appear set), thread-permutation symmetry of the explored outcome set, oracle cross-check against the interleaving reference on SeqCst-only programs",
            "Bounded generated-program exploration: for every generated program (<=4 threads, <=7 events) loom's explored outcome set must contain every outcome of an independent RC11 enumerator in its strongest reading. Shows absence of over-synchronisation on the generated programs only; failures shrink to a minimal replayable program.",
            "Trusts the R-AX enumerator (harness/src/refax.rs). Outcomes that need SeqCst events or a failing CAS ordered against loom's single execution order are the recorded findings F12 / F7c (decided semantically per outcome); a missing outcome in class K7b is attributed to F7b.", "4/C02"),
    "C03": ("property-based differential testing: generated litmus programs run under loom vs brute-force axiomatic RC11 enumeration (may-appear set U)",
            "Bounded generated-program exploration: every outcome loom produces for a generated program must be allowed by the weakest reading (SeqCst accesses as AcqRel, C++20 release sequences) of an independent RC11 enumerator. Sound by construction (never flags what C11/C++20/RC11 disagree on); complete only within the generated bounds.",
            "Trusts the R-AX enumerator; forbidden outcomes on programs in classes K7a/K7b are attributed to the recorded findings F7a/F7b only if they become allowed when the modification order of the K7 locations is left unconstrained.", "4/C03"),
    "C01": ("property-based differential testing: generated programs over all loom primitives run under loom vs an exhaustive interleaving reference (R-SC); set inclusion SC subset-of L plus trace validation; exploration controls: reference with frozen regions (Rfrozen subset-of L)",
            "Bounded generated-program exploration: for each generated program (<=4 threads, <=8 operations, ten families) every result some interleaving of the reference produces (values, deadlock, leak) must be produced by a loom iteration; for programs without atomics the sets must be equal and every iteration's op log must replay on the reference machines.",
            "Trusts R-SC (harness/src/refsc.rs). Programs inside the classes of recorded findings (F9 try-ops, F2/F2b channel emptiness, F5a-e park/unpark) are evaluated but a failure of the finding's kind is attributed to it.", "4/C01"),
    "C05": ("property-based differential testing: deadlock reachability in the R-SC interleaving reference vs loom's deadlock report",
            "Bounded generated-program exploration over blocking primitives: the model run must panic with `deadlock` iff the reference reaches a state with an unfinished thread and no enabled thread; the partial trace at the report must replay to a reference deadlock state; no other panic may occur.",
            "Trusts R-SC blocking semantics; findings F5a/F5d/F5e (park token), F2/F2b, F9 attributed by class.", "4/C05"),
    "C06": ("property-based fault injection: generated programs with planted failures run in a child process, followed by a sentinel model in the same process; verdicts from the R-SC reference",
            "Generated (program, fault site, fault kind, context) cases: the failure must come out of `check` as a panic with the injected / documented message iff the reference says one is reachable (soundness; unconditional faults must fail), the process must survive, and a later model run in the same process must behave exactly as in a fresh process.",
            "Whether a failure that exists only in some schedule is found is left to C01/C05/C10; trusts R-SC reachability.", "4/C06"),
    "C07": ("property-based testing: trace validation of every loom iteration on a reference lock machine + L == SC + race verdicts and stale-read (lost happens-before) validation from reference vector clocks",
            "Bounded generated-program exploration over <=2 mutexes and an rwlock with try-operations and cells inside/outside critical sections: exclusion, reader/writer compatibility, blocking, try_* exactness, protected values and hand-over happens-before (via loom's own race detector, both directions) are checked on every iteration.",
            "Trusts R-SC; F9 (try_* never observes a held lock across threads) and F11 (writes under read guards) attributed by class.", "4/C07"),
    "C08": ("property-based testing: trace validation on reference wait/notify machines + L == SC incl. deadlock verdicts + race verdicts and stale-read (lost happens-before) validation for notifier->waiter hand-over",
            "Bounded generated-program exploration over Condvar, Notify, park/unpark and join (early/late/double notifications, 1-2 waiters): a lost wake-up shows as a spurious deadlock, an extra wake-up as an impossible outcome or invalid trace, a missing happens-before edge as a false race report.",
            "Trusts R-SC; the F5 family (park token conflated with internal wake-ups, park/unpark no scheduling points) attributed by class.", "4/C08"),
    "C09": ("property-based testing: trace validation on a reference FIFO queue + L == SC + leak/deadlock/race verdicts",
            "Bounded generated-program exploration with 1-3 senders and a receiver: exactly-once in-order delivery, blocking recv, try_recv exactness, `Messages leaked` iff messages remain, send->recv happens-before (cells handed over through messages).",
            "Trusts R-SC; F2 (try_recv never races a send) and F2b (receiver drop not a scheduling point) attributed by class.", "4/C09"),
    "C04": ("property-based differential testing: race verdicts of generated programs vs reference happens-before (R-AX for atomic-synchronised, R-SC vector clocks for primitive-synchronised programs)",
            "Bounded generated-program exploration: programs with conflicting non-atomic accesses and a synchronisation idiom between them, in correct and deliberately weakened variants; the run must report a causality violation iff the reference finds a consistent execution with unordered conflicting accesses (must/may bracket over admissible readings).",
            "Trusts R-AX / R-SC happens-before; awaited flags are written once; findings F5c, F11, F2b attributed by class.", "4/C04"),
    "C14": ("property-based testing with an instrumentation hook: reference depth-first step function + distinctness of decision paths",
            "For generated programs of all families (2-5 threads: one family fills all of loom's MAX_THREADS slots) the iteration hook reports every decision path; an independent reference computes the deepest open branch and checks that loom's next prefix is its legal successor, that exhaustion coincides with the end of the run, that no decision sequence repeats and that paths increase in depth-first rank order.",
            "Trusts the hook snapshot (feature `verif`); runs longer than the iteration cap are checked on their prefix.", "4/C14"),
    "C15": ("property-based metamorphic testing across preemption bounds + independent preemption count by trace replay on R-SC (also for the part of a run resumed from a checkpoint)",
            "Each generated program is run unbounded and with bounds n, n+1 and >= #operations: per-execution preemption count (independent replay), subset, monotonicity and large-bound equality relations are checked.",
            "The unbounded run is the yardstick for subset relations (findings F2b, F13 concern its completeness and are attributed by class).", "4/C15"),
    "C10": ("property-based differential testing: leak reachability in the R-SC reference vs loom's leak reports",
            "Bounded generated-program exploration over Arc handles, Track values, raw allocations and channel messages moved between threads, with release and leak paths whose choice depends on the schedule: the run must report a leak of a reachable kind iff some interleaving of the reference ends with a live object.",
            "Trusts R-SC live-object accounting; F6p (Arc inspections vs clone/drop), F2b attributed by class.", "4/C10"),
    "C11": ("property-based testing: trace validation against a reference count + L == SC + race verdicts for the payload destructor",
            "Bounded generated-program exploration over Arc handles in 2-4 threads: every returned strong_count / get_mut / try_unwrap result must equal the reference count at that point of the op log, the payload is dropped exactly once, and every earlier handle drop happens-before the final one (checked through loom's race detector on a cell read by the destructor).",
            "Trusts R-SC; completeness of inspections racing with clone/drop is the recorded finding F6p.", "4/C11"),
    "C13": ("property-based round-trip / metamorphic testing with fresh child processes: interrupted + resumed run == uninterrupted run",
            "Generated (program, checkpoint interval, stop point, stop kind) cases; every run in a fresh process; determinism, prefix property of the interrupted run, exact continuation from the last stored checkpoint incl. reproduction of a failing iteration.",
            "The op log + results are the fingerprint of an iteration; runs above 700 iterations skipped.", "4/C13"),
    "C16": ("property-based differential testing across processes: a model run alone vs after / between / concurrently with other model runs",
            "Generated pairs of programs (incl. failing ones, thread-locals, lazy statics) in three composition modes; the full iteration sequence of P must equal that of P alone in a fresh process; per-iteration invariants on thread ids and lazy-static initialisation. The concurrent mode is a stress check.",
            "OS schedule of concurrent models is not controlled; fingerprints are normalised for addresses and hash-map destructor order.", "4/C16"),
    "C17": ("property-based testing: R-SC comparison + per-iteration bookkeeping invariants for thread-locals and lazy statics",
            "Bounded generated programs over two loom thread-locals and two loom lazy statics from 1-4 threads: lazily-once-per-thread / once-per-execution initialisation, privacy, destruction by the owning thread with AccessError from the destructor, a single shared instance, initialisation happens-before access (race detector), re-initialisation in the next iteration.",
            "Initialisers contain no scheduling point; destructor order within a thread is not asserted (loom uses a hash map).", "4/C17"),
    "C18": ("property-based differential testing: await-loop programs under loom vs R-AX with constrained reads (bracket A subset L subset U) + branch-limit verdicts; do-while loops (unconditional yield) vs an interleaving reference with the documented yield semantics",
            "Bounded generated programs with one spinning thread (one or two yield_now / spin_loop loops on flags written once): completion without the branch limit, every exit outcome of the strongest reading explored, nothing outside the weakest reading; never-true loops must end in the documented branch-limit panic.",
            "Trusts R-AX; flags written once; outcomes that need SeqCst events ordered against po U rf are the recorded finding F12.", "4/C18"),
    "C19": ("property-based testing: product / subset oracles and an interleaving reference with frozen regions (Rfrozen subset-of L subset-of R) for exploration controls, boundary-value generation for limits",
            "Phase programs with one or two frozen phases must yield exactly the product of the explored phases; arbitrary legal placements must yield a subset with valid executions; max_branches / max_threads panic exactly when the need exceeds the limit; max_permutations / max_duration stop between iterations within the documented boundary.",
            "Phases are independent by construction; max_duration only at its deterministic ends.", "4/C19"),
    "C20": ("property-based differential testing: generated block_on / AtomicWaker programs under loom vs an explicit-state interleaving reference (R-FUT)",
            "Bounded generated programs with one or two sequential block_on calls and 1-2 waking threads per task, incl. planted lost wake-ups: poll counts per task and deadlock verdicts must agree with the reference (small programs: set equality under full exploration; larger ones: subset under a preemption bound).",
            "Trusts R-FUT (harness/src/props/c20.rs); the contended AtomicWaker::register path is unreachable under loom's scheduling and is not modelled.", "4/C20"),
    "C12": ("property-based differential testing against std atomics (random op sequences + exhaustive 8-bit operand sub-domain)",
            "Generated single-threaded operation sequences on every loom atomic type are executed on the loom atomic inside loom::model and on the std atomic; all results and final contents must agree. Exhaustive for u8/i8 binary RMWs over all 256x256 operand pairs; sampled (boundary-biased) for wider types.",
            "std atomics are the reference; compare_exchange_weak is compared with the strong std operation (loom documents no spurious failure).", "4/C12"),
}

NOT_YET = "check not built yet (work in progress, see DESIGN.md section 9)"
NA = {}

checks = []
for i in ids:
    if i in CLAIMED:
        tech, text, note, ref = CLAIMED[i]
        checks.append({
            "property_id": i,
            "quick_cmd": "./check %s quick" % i,
            "thorough_cmd": "./check %s thorough" % i,
            "evidence_file": "evidence/%s.json" % i,
            "replay_cmd_template": "./check replay {path}",
            "engine": "lv",
            "level_claimed": {"category": "exploration", "text": text, "design_ref": "DESIGN.md section " + ref},
            "level_note": note,
            "technique": tech,
        })

manifest = {
    "version": 1,
    "setup_cmd": "./check setup",
    "hooks": {
        "guard": "cargo feature `verif` of the loom crate (off by default)",
        "enable": "the harness depends on loom with features [\"checkpoint\", \"futures\", \"verif\"], built from a content-synchronised mirror of /repo's working tree (/verif/build/loom-src)",
        "baseline_off_cmd": "cd /repo && cargo test --workspace --no-fail-fast --offline",
        "source_commits": ["9a6ebf7"],
        "add_only": True,
    },
    "engines": [{
        "name": "lv",
        "path": "harness/",
        "serves_properties": sorted(CLAIMED.keys()),
        "kind_free_text": "Rust property-based testing harness: proptest-driven generators of small concurrent programs (DSL), an interpreter that runs them under the real loom API in worker processes, two independent brute-force reference models (R-SC interleaving semantics, R-AX axiomatic RC11), shrinking, replay files, known-findings handling",
    }],
    "checks": checks,
    "notes": "Known findings: known_findings.json (regenerated by tools/mk_known.py, never written at run time). Exit codes: 0 held, 1 VIOLATION, 2 inconclusive (build failure / watchdog / oracle self-check).",
    "not_applicable": [{"property_id": i, "reason": NA.get(i, NOT_YET)} for i in ids if i not in CLAIMED],
}
json.dump(manifest, open(os.path.join(ROOT, "MANIFEST.json"), "w"), indent=1)
print("claimed:", sorted(CLAIMED.keys()))
